-------------------------- MODULE Deb822ValueHist --------------------------
(***************************************************************************)
(* C08, histories -- the verdict of an assignment and the paragraph after  *)
(* it depend on NOTHING but the class, the field name and the value: not   *)
(* on what was assigned before (to this or any other paragraph, accepted   *)
(* or rejected), not on other live paragraphs.                             *)
(*                                                                         *)
(* State: hp[o], the paragraph of each LIVE object o (classes HCls: "D" =  *)
(* Deb822, no multivalued field; "S" = Dsc / Changes, where Files is       *)
(* multivalued and therefore NOT validated), and memo, a process-wide      *)
(* table of the implementation layer.                                      *)
(* Actions:                                                                *)
(*   Assign(o, k, v)  o[k] = v for a key that is not multivalued in o's    *)
(*                    class; k may be absent (the field is appended).      *)
(*                    Reference: Accept(v) -> SetField, else ValueError    *)
(*                    and hp unchanged.                                    *)
(*   Scratch(c, v)    the same value assigned to the multivalued key Files *)
(*                    of a throw-away object of class c: the statement     *)
(*                    does not decide the outcome (no validation today);   *)
(*                    it must not change any live paragraph nor any later  *)
(*                    verdict.                                             *)
(* Implementation layer: MemoMode = "none" is the code (no memo); the      *)
(* negative controls                                                       *)
(*   MemoMode = "value"     verdict memoised by the value only             *)
(*                          -> Scratch("S", "x\n") then Assign(1, A, "x\n")*)
(*                             is accepted: HistoryFree violated           *)
(*   MemoMode = "keyvalue"  memoised by (key, value), class ignored        *)
(*                          -> Scratch("S", b) then Assign(1, Files, b) on *)
(*                             the Deb822 object: HistoryFree violated     *)
(*   RejectStoresEmpty      a rejected assignment to an absent key leaves  *)
(*                          the key behind with an empty value             *)
(*                          -> HistoryFree (paragraph after ValueError)    *)
(* were run; c08.py re-runs them in every check.                           *)
(* Same-key histories (UseExt = TRUE: the values additionally hold the     *)
(* prefix chain "x\r" < "x\r x", "x\rx:x", cut at a bare CR): the verdict  *)
(* of o[k] = v does not depend on the value STORED under k either -- not   *)
(* when v extends it, is a prefix of it or shares a prefix with it.        *)
(* HistoryFree / HistSound hold on the closed state space (keys A / Files);*)
(* negative control                                                        *)
(*   AppendFastPath         only the text appended to the stored value is  *)
(*                          validated, its first line being taken for the  *)
(*                          rest of the stored last line                   *)
(*                          -> Assign(o, A, "x\r"); Assign(o, A, "x\rx:x")*)
(*                             is accepted: HistoryFree, HistSound         *)
(* Construction (WithBuild = TRUE, MC_Deb822ValueHist_build.cfg: keys A /  *)
(* Files, every live paragraph may become EMPTY and be filled again):      *)
(*   Fresh(o, how)    live object o is replaced by an EMPTY paragraph of   *)
(*                    its class: how = "noarg" (Cls() / Cls({}) / a copy   *)
(*                    of an empty paragraph ...), "parsed" (the parsing    *)
(*                    constructor ran over input WITHOUT any field: [] /   *)
(*                    "" / empty file / blank lines / comments only / all  *)
(*                    fields filtered away) or "cleared" (the SAME object  *)
(*                    emptied by clear() / del / pop).  Reference: the     *)
(*                    paragraph is <<>> and every later assignment has the *)
(*                    history-free verdict -- validation applies to a      *)
(*                    paragraph however it came to be empty.               *)
(*   Rebuild(o, q, c, x)  live object o is replaced by Cls_o(M) where M is *)
(*                    a MAPPING holding the fields m = paragraph of live   *)
(*                    object q, optionally with Files |-> x, carried by    *)
(*                    c = "dict" (plain mapping: nothing in it was ever    *)
(*                    validated), "D" (a paragraph object of a class where *)
(*                    Files is an ordinary field: x accepted) or "S" (a    *)
(*                    paragraph object of a class where Files is           *)
(*                    multivalued: the raw string x was never validated).  *)
(*                    Building a paragraph from a mapping ASSIGNS every    *)
(*                    field: the reference outcome depends on the TARGET   *)
(*                    class and on m alone -- all values accepted -> the   *)
(*                    new paragraph is m, otherwise ValueError and no      *)
(*                    object is built (o stays what it was) -- never on    *)
(*                    the class of the carrier.  Only generated when the   *)
(*                    target class validates every key of m (Files into an *)
(*                    S object is outside the domain).                     *)
(* Negative controls of the construction layer (each run, each makes TLC   *)
(* report HistoryFree violated; c08.py re-runs them):                      *)
(*   TrustSourceClass      values of a carrier that is a paragraph of the  *)
(*                         target's class or of a subclass (S is a subclass*)
(*                         of D) are stored without validation             *)
(*                         -> Rebuild(1, q, "S", "x\nx:x") is accepted    *)
(*   ParseLeavesUnchecked  an object whose parsing constructor met no      *)
(*                         field never validates again                     *)
(*                         -> Fresh(o, "parsed"); Assign(o, A, "x\n")     *)
(* Properties (MC_Deb822ValueHist*.cfg; the state space is CLOSED: any     *)
(* history over three objects x keys {A, N, Files} x values {"x\n x",      *)
(* "x\nx:x", "x\n"}):                                                      *)
(*   HistoryFree  (action property) every Assign step has the reference    *)
(*                result, the reference paragraph, and leaves the other    *)
(*                live paragraphs alone; a Scratch step changes nothing    *)
(*   HistSound    every live paragraph of every reachable state reads back *)
(*                (model reader, both forms, both settings) as one         *)
(*                paragraph with its own keys                              *)
(* Faults of caller-supplied objects (SIZE_STRESS part 5; WithFault = TRUE  *)
(* in every configuration):                                                *)
(*   FaultDump(o, k)  o.dump(fd) with a file object fd the CALLER supplies *)
(*                    and whose k-th write() fails (ENOSPC, closed file, a *)
(*                    text file without text_mode, a private exception, a  *)
(*                    short write ...), k = 1..number of fields (one write *)
(*                    per field).  Reference: the caller's fault comes out *)
(*                    ("fault") and NOTHING else happens -- every paragraph*)
(*                    is what it was and, the statement being about "the   *)
(*                    paragraph", every later dump of it is the dump of    *)
(*                    the WHOLE paragraph: Shown(o) = hp[o].               *)
(*   FaultBuild(o, q, k)  Cls_o(M) with a caller-supplied mapping M over   *)
(*                    the fields of live object q that fails at its k-th   *)
(*                    item (keys() / __getitem__ raising): the caller's    *)
(*                    exception comes out, no object is built, every live  *)
(*                    paragraph is what it was (WithBuild only).           *)
(* Implementation layer: dmemo[o] = number of entries of a serialisation   *)
(* kept for object o (-1 = none; the code keeps none).  Negative control   *)
(*   DumpMemoPartial       the entries formatted so far are kept when the  *)
(*                         consumer of the dump stops early, and replayed  *)
(*                         until the paragraph changes -> HistSound (the   *)
(*                         later dump reads back with fewer field names)   *)
(* EmitH = TRUE prints the complete LTS as EDGE lines; c08.py replays      *)
(* walks through it on real objects (Deb822 / Dsc / Changes), concretizing *)
(* the three values with payload runs, line counts, key lengths and        *)
(* paragraph sizes far beyond the model (the size lemmas of Deb822Value    *)
(* make the expectation length-independent).                               *)
(***************************************************************************)
EXTENDS Deb822Value

CONSTANTS MemoMode, RejectStoresEmpty, EmitH,
          UseN,                                    \* TRUE: keys A / N / Files, FALSE: A / Files
          WithBuild,                               \* TRUE: Fresh and Rebuild are enabled
          TrustSourceClass, ParseLeavesUnchecked,  \* negative controls of the construction layer (FALSE)
          WithFault,                               \* TRUE: FaultDump / FaultBuild are enabled
          DumpMemoPartial,                         \* negative control of the fault layer (FALSE)
          UseExt,                                  \* TRUE: the values include a PREFIX CHAIN cut at a bare CR (ExtCR)
          AppendFastPath                           \* negative control of the same-key histories (FALSE)

ASSUME WithBuild => MemoMode = "none"              \* (the memo controls are run without construction)

VARIABLES hp, memo, hres,
          unchk,           \* implementation layer: the objects that no longer validate (always {} in the code)
          dmemo            \* implementation layer: dmemo[o] entries of a kept serialisation, -1 = none (the code)

hvars == <<hp, memo, hres, unchk, dmemo>>

HCls   == <<"D", "S", "S">>
Objs   == 1..Len(HCls)
KA     == <<65>>                                   \* "A"  present from the start
KN     == <<78>>                                   \* "N"  absent at first
KF     == <<70, 105, 108, 101, 115>>               \* "Files"
HKeys  == IF UseN THEN {KA, KN, KF} ELSE {KA, KF}
VX     == <<120>>                                  \* "x"       initial value of A
VG     == <<120, 10, 32, 120>>                     \* "x\n x"   accepted
VB1    == <<120, 10, 120, 58, 120>>                \* "x\nx:x"  would inject field x
VB2    == <<120, 10>>                              \* "x\n"     would split the paragraph
\* values that EXTEND one another, cut at a line boundary of the domain: assigning them one after the other
\* to the SAME key makes the stored value a proper prefix of the new one ("x\r" is one line for
\* str.splitlines(), what follows it starts a NEW line)
VC     == <<120, 13>>                              \* "x\r"     accepted
VCG    == <<120, 13, 32, 120>>                     \* "x\r x"   accepted, extends VC
VCB    == <<120, 13, 120, 58, 120>>                \* "x\rx:x"  extends VC; str input reads a field x back
ExtCR  == {VC, VCG, VCB}
HValues == {VG, VB1, VB2} \cup (IF UseExt THEN ExtCR ELSE {})

IsMultiKey(c, k) == c = "S" /\ SameName(k, KF)
HasKey(p, k)     == \E i \in 1..Len(p) : SameName(p[i].k, k)

\* reference: history-free
RefOutcome(p, k, v) == IF Accept(v) THEN [res |-> "ok", para |-> SetField(p, k, v)]
                       ELSE [res |-> "ValueError", para |-> p]

\* implementation layer
MemoKey(c, k, v) == CASE MemoMode = "value"    -> <<v>>
                      [] MemoMode = "keyvalue" -> <<k, v>>
                      [] OTHER                 -> <<c, k, v>>
Verdict(c, k, v) == IF MemoMode # "none" /\ MemoKey(c, k, v) \in DOMAIN memo THEN memo[MemoKey(c, k, v)]
                    ELSE IF IsMultiKey(c, k) THEN "ok"              \* _multivalued.validate_input: pass
                    ELSE Validate(v)
Remember(c, k, v) == IF MemoMode = "none" \/ MemoKey(c, k, v) \in DOMAIN memo THEN memo
                     ELSE memo @@ (MemoKey(c, k, v) :> Verdict(c, k, v))
\* negative control AppendFastPath: "the stored value was validated when it was assigned, so only the text
\* appended to it needs checking" -- the value handed to the validator is the appended text alone when the
\* stored value is a proper prefix of the new one (the code always hands over the whole value)
StoredOf(p, k) == p[CHOOSE i \in 1..Len(p) : SameName(p[i].k, k)].v
IsProperPrefix(a, b) == Len(a) > 0 /\ Len(a) < Len(b) /\ SubSeq(b, 1, Len(a)) = a
Checked(p, k, v) == IF AppendFastPath /\ HasKey(p, k) /\ IsProperPrefix(StoredOf(p, k), v)
                    THEN SubSeq(v, Len(StoredOf(p, k)) + 1, Len(v)) ELSE v
ImplPara(p, k, v, verdict) == IF verdict = "ok" THEN SetField(p, k, v)
                              ELSE IF RejectStoresEmpty /\ ~HasKey(p, k) THEN Append(p, [k |-> k, v |-> <<>>])
                              ELSE p

\* construction: the mapping handed to the constructor, its reference and implementation outcome
NoValue == <<>>
Carriers == {"dict", "D", "S"}
Hows == {"noarg", "parsed", "cleared"}
MapOf(q, x) == IF x = NoValue THEN hp[q] ELSE SetField(hp[q], KF, x)
BuildOK(m) == \A i \in 1..Len(m) : Accept(m[i].v)
RefBuild(p, m) == IF BuildOK(m) THEN [res |-> "ok", para |-> m] ELSE [res |-> "ValueError", para |-> p]
TargetValidatesAll(c, m) == \A i \in 1..Len(m) : ~IsMultiKey(c, m[i].k)
\* isinstance(carrier, type(target)): the carrier is a paragraph of the target's class or of a subclass
Trusted(t, c) == TrustSourceClass /\ c \in {"D", "S"} /\ (t = "D" \/ t = c)
ImplBuildOK(t, c, m) == Trusted(t, c) \/ \A i \in 1..Len(m) : Validate(m[i].v) = "ok"
NoHres == [op |-> "none", o |-> 0, k |-> <<>>, v |-> <<>>, res |-> "none", m |-> <<>>]

\* what dump() / str() / dump(fd) of object o serialises: the paragraph -- in the code; the kept entries in
\* the negative control.  Any change of the paragraph drops what was kept.
Shown(o)   == IF dmemo[o] = -1 THEN hp[o] ELSE SubSeq(hp[o], 1, dmemo[o])
Forget(o)  == [dmemo EXCEPT ![o] = -1]

Edge(op, args, r) == EmitH => PrintT(<<"EDGE", ToJson([from |-> hp, op |-> op, args |-> args, res |-> r, to |-> hp'])>>)

HInit == /\ hp = [o \in Objs |-> << [k |-> KA, v |-> VX] >>]
         /\ memo = <<>>
         /\ hres = NoHres /\ unchk = {}
         /\ dmemo = [o \in Objs |-> -1]
         /\ inp = <<>> /\ para = <<>> /\ res = "none" /\ out = <<>>
         /\ (EmitH => \A v \in HValues \cup {VX} :
                         PrintT(<<"VALUE", ToJson([v |-> v, cls |-> Classify(v), segs |-> Segs(v)])>>))

Assign(o, k, v) == /\ ~IsMultiKey(HCls[o], k)
                   /\ LET vd == IF o \in unchk THEN "ok" ELSE Verdict(HCls[o], k, Checked(hp[o], k, v)) IN
                        /\ hp' = [hp EXCEPT ![o] = ImplPara(hp[o], k, v, vd)]
                        /\ memo' = Remember(HCls[o], k, v)
                        /\ hres' = [NoHres EXCEPT !.op = "assign", !.o = o, !.k = k, !.v = v, !.res = vd]
                        /\ Edge("assign", <<o, k, v>>, vd)
                        /\ dmemo' = IF vd = "ok" THEN Forget(o) ELSE dmemo
                   /\ UNCHANGED <<vars, unchk>>
Scratch(c, v)   == /\ IsMultiKey(c, KF)
                   /\ hp' = hp
                   /\ memo' = Remember(c, KF, v)
                   /\ hres' = [NoHres EXCEPT !.op = "scratch", !.k = KF, !.v = v, !.res = "unspec"]
                   /\ Edge("scratch", <<c, KF, v>>, "unspec")
                   /\ UNCHANGED <<vars, unchk, dmemo>>
Fresh(o, how)   == /\ WithBuild
                   /\ hp' = [hp EXCEPT ![o] = <<>>]
                   /\ unchk' = IF how = "cleared" THEN unchk                        \* the same object
                                ELSE IF ParseLeavesUnchecked /\ how = "parsed" THEN unchk \cup {o}
                                ELSE unchk \ {o}
                   /\ hres' = [NoHres EXCEPT !.op = "fresh", !.o = o, !.res = "ok"]
                   /\ Edge("fresh", <<o, how>>, "ok")
                   /\ dmemo' = Forget(o)
                   /\ UNCHANGED <<vars, memo>>
Rebuild(o, q, c, x) ==
                   /\ WithBuild
                   /\ (c = "D" /\ x # NoValue) => Accept(x)            \* a D paragraph holds validated values only
                   /\ LET m == MapOf(q, x) IN
                        /\ TargetValidatesAll(HCls[o], m)
                        /\ LET ok == ImplBuildOK(HCls[o], c, m)
                                r  == IF ok THEN "ok" ELSE "ValueError" IN
                             /\ hp' = [hp EXCEPT ![o] = IF ok THEN m ELSE hp[o]]
                             /\ unchk' = IF ok THEN unchk \ {o} ELSE unchk
                             /\ hres' = [NoHres EXCEPT !.op = "rebuild", !.o = o, !.m = m, !.res = r]
                             /\ Edge("rebuild", <<o, q, c, x, m>>, r)
                             /\ dmemo' = IF ok THEN Forget(o) ELSE dmemo
                   /\ UNCHANGED <<vars, memo>>
\* faults of caller-supplied objects
FaultDump(o, k) == /\ WithFault
                   /\ k \in 1..Len(hp[o])                              \* one write per field; an empty paragraph writes nothing
                   /\ hp' = hp
                   /\ dmemo' = IF DumpMemoPartial /\ dmemo[o] = -1 THEN [dmemo EXCEPT ![o] = k] ELSE dmemo
                   /\ hres' = [NoHres EXCEPT !.op = "faultdump", !.o = o, !.res = "fault"]
                   /\ Edge("faultdump", <<o, k>>, "fault")
                   /\ UNCHANGED <<vars, memo, unchk>>
FaultBuild(o, q, k) ==
                   /\ WithFault /\ WithBuild
                   /\ k \in 1..Len(hp[q])
                   /\ hp' = hp
                   /\ hres' = [NoHres EXCEPT !.op = "faultbuild", !.o = o, !.res = "fault"]
                   /\ Edge("faultbuild", <<o, q, k>>, "fault")
                   /\ UNCHANGED <<vars, memo, unchk, dmemo>>

HNext == \/ \E o \in Objs, k \in HKeys, v \in HValues : Assign(o, k, v)
         \/ \E v \in HValues : Scratch("S", v)
         \/ \E o \in Objs, how \in Hows : Fresh(o, how)
         \/ \E o \in Objs, q \in Objs, c \in Carriers, x \in HValues \cup {NoValue} : Rebuild(o, q, c, x)
         \/ \E o \in Objs, k \in 1..Cardinality(HKeys) : FaultDump(o, k)
         \/ \E o \in Objs, q \in Objs, k \in 1..Cardinality(HKeys) : FaultBuild(o, q, k)
HSpec == HInit /\ [][HNext]_<<hvars, vars>>
HView == <<hp, memo, unchk, dmemo>>           \* hres is an output

HistoryFreeStep ==
    LET e == hres' IN
    /\ e.op = "assign" => LET r == RefOutcome(hp[e.o], e.k, e.v) IN
                          /\ e.res = r.res
                          /\ hp'[e.o] = r.para
                          /\ \A q \in Objs \ {e.o} : hp'[q] = hp[q]
    /\ e.op = "scratch" => hp' = hp
    /\ e.op = "fresh" => /\ hp'[e.o] = <<>> /\ e.res = "ok"
                         /\ \A q \in Objs \ {e.o} : hp'[q] = hp[q]
    /\ e.op = "rebuild" => LET r == RefBuild(hp[e.o], e.m) IN
                           /\ e.res = r.res
                           /\ hp'[e.o] = r.para
                           /\ \A q \in Objs \ {e.o} : hp'[q] = hp[q]
    /\ e.op \in {"faultdump", "faultbuild"} => hp' = hp /\ e.res = "fault"      \* the fault comes out, nothing else
HistoryFree == [][HistoryFreeStep]_<<hvars, vars>>

\* (an empty paragraph has no text: the round trip is about paragraphs that hold a field)
\* ... the text being what a dump of the object gives NOW, whatever dumps -- completed or not -- came before
HistSound == \A o \in Objs : hp[o] # <<>> => SoundObs(hp[o], ObsAll(Shown(o)))
DumpWhole == \A o \in Objs : Shown(o) = hp[o]
=============================================================================
