CONSTANTS
  NC = 8
  Chunk = 5
  Classes = {0, 1}
  Scripts <- MCScripts
  ShortLen = 1
  LongLens = {6}
  LongErr = FALSE
  ArgK = {2}
  Lims <- LimsNone
  Preds <- PredsTwo
  MaxGens = 1
  Latch = TRUE
  UseClosed = FALSE
  Bug = "none"
  Emit = TRUE
SPECIFICATION ISpec
VIEW IView
