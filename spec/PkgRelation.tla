----------------------------- MODULE PkgRelation -----------------------------
(***************************************************************************)
(* C13 -- package relationship fields: format and parse are inverse.       *)
(*                                                                         *)
(* A relation is a conjunction (sequence) of alternatives (sequence) of    *)
(* atoms.  An atom is a record                                             *)
(*    [name, q, v, a, r]                                                   *)
(*  name  payload id of the package name                                   *)
(*  q     payload id of the architecture qualifier, 0 = None               *)
(*  v     [some, op, ver]: version constraint (op indexes << <= = >= >>,   *)
(*        ver a payload id), some = FALSE is None                          *)
(*  a     [some, l]: architecture list, l a sequence of [e, id] (e =       *)
(*        enabled, FALSE when written with '!'), some = FALSE is None      *)
(*  r     [some, l]: restriction formula, l a sequence of groups, a group  *)
(*        a sequence of [e, id]                                            *)
(* Payload text (names, versions, ...) is abstracted to ids; text is a     *)
(* sequence of TOKENS [k, id] with the class symbols                       *)
(*    name colon qual lpar op ver rpar lbr bang arch rbr lt prof gt        *)
(*    comma pipe sp(blank run)  (x = anything else, never produced here).  *)
(*                                                                         *)
(* Three layers (pure operators, re-used by TracePkgRelation):             *)
(*  Format     the token sequence PkgRelation.str writes:                  *)
(*             name[:qual][ (op ver)][ [archs]][ <grp> <grp>], alternatives*)
(*             joined by " | ", conjuncts by ", ".                         *)
(*  ParseAtom  PkgRelation.__dep_RE as an automaton over token kinds: the  *)
(*             optional groups in their fixed order with exactly the blank *)
(*             tolerance of the regex (\s* before '(' / inside the         *)
(*             parentheses / before '[' / around the restriction formula,  *)
(*             none between name, ':' and the qualifier), the greedy <.+>, *)
(*             then parse_archs (blank split, leading '!') and             *)
(*             parse_restrictions (strip('<> '), split at '>\s*<', blank   *)
(*             split, optional '!').  No match = the fallback path that    *)
(*             warns "cannot parse package relationship" and returns the   *)
(*             raw text as the name (id Bad here).                         *)
(*  Parse      raw.strip(), the comma splitter, the pipe splitter (both    *)
(*             absorb adjacent blanks), ParseAtom on every piece.          *)
(*                                                                         *)
(* Format is a function of the ABSTRACT structure only: an atom is a       *)
(* record, it has no key order, no container types and no sizes (payload   *)
(* text is an id).  What a concrete Python input has beyond that -- the    *)
(* insertion order of the dict keys, list vs tuple, the length of a name,  *)
(* the number of digits of an epoch -- is a dimension of the               *)
(* CONCRETIZATION in c13.py: every key order, container type and size must *)
(* give the token string Format predicts, and equal structures equal       *)
(* strings.  The one concrete component that is modelled, to show that TLC *)
(* catches a formatter that looks at it, is the key order `kord` (a        *)
(* permutation of the four optional parts) with the negative control       *)
(* FormatInKeyOrder (formatter walks dep.items(): seeded change C13-seedC).*)
(*                                                                         *)
(* Model checking: closed enumeration.  The state is a relation with ONE   *)
(* focus atom ranging over every combination of the independent optional   *)
(* parts (qualifier x {none, 5 operators} x arch lists of 1..MaxArch plain/*)
(* negated entries x formulas of 1..MaxGroups groups of 1..MaxTerms plain/ *)
(* negated terms: 3612 atom shapes for 2/2/2), placed at every position of *)
(* every list shape (1..MaxConj conjuncts of 1..MaxAlt alternatives, at    *)
(* most MaxAtoms atoms); the                                               *)
(* other positions hold a context atom (bare name, or an atom with every   *)
(* optional part), so that every atom ending (name, qualifier, ')', ']',   *)
(* '>') meets both separators.  Invariants, evaluated in every state:      *)
(*   Inverse    Parse(Format(r)) = r                                       *)
(*   NoWarning  the fallback path is never taken for formatter output      *)
(*   Stable     Format(Parse(Format(r))) = Format(r)                       *)
(*   TokensWellFormed  (the formatter writes no leading/trailing/double    *)
(*              blank -- the assumption under which a blank token is a     *)
(*              maximal blank run)                                         *)
(* (the big configurations check their conjunction AllProps, so that       *)
(* Format and Parse are evaluated once per structure).  With Emit = TRUE   *)
(* every state prints a CASE line (the structure and its expected token    *)
(* string) that harness/props/c13.py replays.                              *)
(*                                                                         *)
(* Spec-level negative controls (each tried; each makes TLC report the     *)
(* invariant; c13.py re-runs them in every check):                         *)
(*   RestrictionsFirst = TRUE  (formatter writes the restriction formula   *)
(*                              before the architecture list: wrong group  *)
(*                              order for the regex)                       *)
(*                              -> NoWarning, Stable (and Inverse) violated*)
(*   IgnoreNegation = TRUE     (parser does not take the '!' marker off)   *)
(*                                                    -> Inverse violated  *)
(*   PipeFirst = TRUE          (parser splits at '|' before ',')           *)
(*                                                    -> Inverse violated  *)
(*   FormatInKeyOrder = TRUE   (formatter emits the optional parts in the  *)
(*                              key order of the input, KeyOrders = all 24)*)
(*                              -> FormatIgnoresKeyOrder, NoWarning        *)
(*   SplitLimit = n > 0        (the splitters of the list levels named in  *)
(*                              LimitedSplits stop after n separators and  *)
(*                              leave the rest of the text in one piece:   *)
(*                              re.split(pattern, text, n))                *)
(*                              -> CountProps of PkgRelationCount for a    *)
(*                              list of more than n + 1 items; invisible   *)
(*                              in the closed space of this module, whose  *)
(*                              lists have at most 3 items                 *)
(* The list operators (PJoin, PSplitAt, RGroups, FirstOfKind) are written  *)
(* without linear recursion so that PkgRelationCount and the trace module  *)
(* can evaluate Format / Parse on fields of a thousand relations.          *)
(* Not modelled: characters inside a payload token (sampled by the         *)
(* harness); lower-casing of profile names (identity on the domain: D3).   *)
(***************************************************************************)
EXTENDS Integers, Sequences, FiniteSets, TLC, Json

CONSTANTS MaxConj, MaxAlt,       \* list shape bounds
          MaxAtoms,              \* atoms in a relation (focus + context atoms)
          MaxArch,               \* longest architecture list
          MaxGroups, MaxTerms,   \* restriction formula bounds
          OpIds,                 \* subset of 1..5
          CtxKinds,              \* subset of {"bare", "full"}
          KeyOrders,             \* key orders of the concrete input (permutations of <<"q","v","a","r">>)
          Emit,                  \* TRUE: print CASE lines
          RestrictionsFirst,     \* negative control (formatter)
          IgnoreNegation,        \* negative control (parser)
          PipeFirst,             \* negative control (parser)
          FormatInKeyOrder,      \* negative control (formatter)
          SplitLimit,            \* negative control (parser): 0 = none; n > 0: the splitters of the list levels
          LimitedSplits          \*   in LimitedSplits ("conj", "alt", "arch", "groups", "terms") stop after n separators

VARIABLES rel,                   \* the relation built so far
          ctx,                   \* kind of the context atoms of this relation
          kord                   \* key insertion order of the concrete dicts (no part of the structure)
vars == <<rel, ctx, kord>>

Bad == -1                        \* "payload is not a single token of the expected kind"

----------------------------------------------------------------------------
\* tokens

Tk(k, id) == [k |-> k, id |-> id]
SP    == Tk("sp", 0)
COMMA == Tk("comma", 0)
PIPE  == Tk("pipe", 0)
COLON == Tk("colon", 0)
LPAR  == Tk("lpar", 0)
RPAR  == Tk("rpar", 0)
LBR   == Tk("lbr", 0)
RBR   == Tk("rbr", 0)
LT    == Tk("lt", 0)
GT    == Tk("gt", 0)
BANG  == Tk("bang", 0)

KindNames == <<"name", "colon", "qual", "lpar", "op", "ver", "rpar", "lbr", "bang", "arch",
               "rbr", "lt", "prof", "gt", "comma", "pipe", "sp", "x">>
KindNo == [name |-> 1, colon |-> 2, qual |-> 3, lpar |-> 4, op |-> 5, ver |-> 6, rpar |-> 7, lbr |-> 8,
           bang |-> 9, arch |-> 10, rbr |-> 11, lt |-> 12, prof |-> 13, gt |-> 14, comma |-> 15,
           pipe |-> 16, sp |-> 17, x |-> 18]
\* integer code of a token (compact CASE lines / trace files): kind * TokBase + id, Bad as TokBase - 1
\* (ids of long lists -- PkgRelationCount, recorded fields of a thousand relations -- go into the thousands)
TokBase == 100000
EncTok(t) == KindNo[t.k] * TokBase + (IF t.id = Bad THEN TokBase - 1 ELSE t.id)
DecTok(c) == Tk(KindNames[c \div TokBase], IF c % TokBase = TokBase - 1 THEN Bad ELSE c % TokBase)
ASSUME \A i \in 1..Len(KindNames) : KindNo[KindNames[i]] = i

KindAt(t, i) == IF i >= 1 /\ i <= Len(t) THEN t[i].k ELSE "end"

\* sep.join(ss); halving keeps the recursion depth logarithmic (lists of a thousand items: PkgRelationCount)
RECURSIVE PJoinSub(_, _, _, _)
PJoinSub(ss, sep, lo, hi) == IF lo > hi THEN <<>>
                             ELSE IF lo = hi THEN ss[lo]
                             ELSE LET mid == (lo + hi) \div 2
                                  IN PJoinSub(ss, sep, lo, mid) \o sep \o PJoinSub(ss, sep, mid + 1, hi)
PJoin(ss, sep) == PJoinSub(ss, sep, 1, Len(ss))

----------------------------------------------------------------------------
\* structures

NoVer    == [some |-> FALSE, op |-> 0, ver |-> 0]
NoneList == [some |-> FALSE, l |-> <<>>]
SomeList(l) == [some |-> TRUE, l |-> l]
Atom(n, q, v, a, r) == [name |-> n, q |-> q, v |-> v, a |-> a, r |-> r]
\* what the fallback path returns: the raw text as name, everything else None
RawAtom == Atom(Bad, 0, NoVer, NoneList, NoneList)

----------------------------------------------------------------------------
\* Format: PkgRelation.str

FmtEntry(e, kind) == (IF e.e THEN <<>> ELSE <<BANG>>) \o <<Tk(kind, e.id)>>       \* pp_arch / a term
FmtEntries(l, kind) == PJoin([i \in 1..Len(l) |-> FmtEntry(l[i], kind)], <<SP>>)  \* ' '.join
FmtGroup(g) == <<LT>> \o FmtEntries(g, "prof") \o <<GT>>                          \* pp_restrictions
FmtQual(a)  == IF a.q # 0 THEN <<COLON, Tk("qual", a.q)>> ELSE <<>>               \* ':%s'
FmtVer(a)   == IF a.v.some THEN <<SP, LPAR, Tk("op", a.v.op), SP, Tk("ver", a.v.ver), RPAR>> ELSE <<>>  \* ' (%s %s)'
FmtArch(a)  == IF a.a.some THEN <<SP, LBR>> \o FmtEntries(a.a.l, "arch") \o <<RBR>> ELSE <<>>          \* ' [%s]'
FmtRestr(a) == IF a.r.some
               THEN <<SP>> \o PJoin([i \in 1..Len(a.r.l) |-> FmtGroup(a.r.l[i])], <<SP>>)              \* ' %s'
               ELSE <<>>
FmtAtom(a)  == <<Tk("name", a.name)>> \o FmtQual(a) \o FmtVer(a)                  \* pp_atomic_dep
               \o (IF RestrictionsFirst THEN FmtRestr(a) \o FmtArch(a) ELSE FmtArch(a) \o FmtRestr(a))
FmtAlts(alts) == PJoin([j \in 1..Len(alts) |-> FmtAtom(alts[j])], <<SP, PIPE, SP>>)   \* ' | '.join
Format(r)     == PJoin([i \in 1..Len(r) |-> FmtAlts(r[i])], <<COMMA, SP>>)            \* ', '.join

\* the formatter applied to a CONCRETE input: structure + key order.  It must not look at the order.
CanonOrder == <<"q", "v", "a", "r">>
OneKeyOrder == {CanonOrder}
AllKeyOrders == {o \in [1..4 -> {"q", "v", "a", "r"}] : \A i, j \in 1..4 : i # j => o[i] # o[j]}
FmtPart(a, k) == CASE k = "q" -> FmtQual(a) [] k = "v" -> FmtVer(a) [] k = "a" -> FmtArch(a) [] k = "r" -> FmtRestr(a)
FmtAtomK(a, ord) == IF FormatInKeyOrder
                    THEN <<Tk("name", a.name)>> \o FmtPart(a, ord[1]) \o FmtPart(a, ord[2])
                                               \o FmtPart(a, ord[3]) \o FmtPart(a, ord[4])
                    ELSE FmtAtom(a)
FmtAltsK(alts, ord) == PJoin([j \in 1..Len(alts) |-> FmtAtomK(alts[j], ord)], <<SP, PIPE, SP>>)
FormatK(r, ord)     == PJoin([i \in 1..Len(r) |-> FmtAltsK(r[i], ord)], <<COMMA, SP>>)

\* a blank token is a maximal blank run; the formatter never starts or ends with one
TokWellFormed(t) == /\ \A i \in 1..(Len(t) - 1) : ~(t[i].k = "sp" /\ t[i + 1].k = "sp")
                    /\ KindAt(t, 1) # "sp" /\ KindAt(t, Len(t)) # "sp"

----------------------------------------------------------------------------
\* Parse: PkgRelation.parse_relations

RECURSIVE SkipSp(_, _)
SkipSp(t, i) == IF KindAt(t, i) = "sp" THEN SkipSp(t, i + 1) ELSE i
RECURSIVE SkipSpBack(_, _)
SkipSpBack(t, i) == IF KindAt(t, i) = "sp" THEN SkipSpBack(t, i - 1) ELSE i
PStrip(t) == LET lo == SkipSp(t, 1) hi == SkipSpBack(t, Len(t))                     \* str.strip()
             IN IF lo > hi THEN <<>> ELSE SubSeq(t, lo, hi)

\* re.split at every token of `kind` (pieces may be empty): the separator positions in ascending
\* order, the pieces between them.  No recursion: fields of a thousand relations are split as well.
Indices(t) == [i \in 1..Len(t) |-> i]
SepPositions(t, kind) == SelectSeq(Indices(t), LAMBDA i : t[i].k = kind)
\* re.split(pattern, text, maxsplit): only the first maxsplit separators split, the rest of the text
\* stays ONE piece (negative control SplitLimit; lv names the list level the splitter serves)
Limited(lv) == SplitLimit > 0 /\ lv \in LimitedSplits
NSplits(pos, lv) == IF Limited(lv) /\ Len(pos) > SplitLimit THEN SplitLimit ELSE Len(pos)
SetMin(S) == CHOOSE x \in S : \A y \in S : x <= y
PSplitAt(t, kind, lv) ==
   LET pos == SepPositions(t, kind)
       np  == NSplits(pos, lv)
   IN [k \in 1..(np + 1) |-> SubSeq(t, IF k = 1 THEN 1 ELSE pos[k - 1] + 1,
                                      IF k = np + 1 THEN Len(t) ELSE pos[k] - 1)]
\* the comma / pipe splitters \s*,\s* and \s*\|\s* absorb the blanks next to the separator
PSplitSep(t, kind) == LET ps == PSplitAt(t, kind, IF kind = "comma" THEN "conj" ELSE "alt")
                      IN [i \in 1..Len(ps) |-> PStrip(ps[i])]
\* __blank_sep_RE.split
PSplitBlank(t, lv) == PSplitAt(t, "sp", lv)

\* first position >= i of a token of `kind` (Len(t) + 1: none)
FirstOfKind(t, i, kind) == LET S == {x \in i..Len(t) : t[x].k = kind}
                           IN IF S = {} THEN (IF i > Len(t) THEN i ELSE Len(t) + 1) ELSE SetMin(S)
RECURSIVE LastOfKind(_, _, _)
LastOfKind(t, i, kind) == IF i < 1 \/ t[i].k = kind THEN i ELSE LastOfKind(t, i - 1, kind)

PayloadId(item, kind) == IF Len(item) = 1 /\ item[1].k = kind THEN item[1].id ELSE Bad

\* parse_archs: raw.strip(), blank split, `disabled = arch[0] == '!'` (IndexError on an empty item)
ArchEntry(item) == IF ~IgnoreNegation /\ KindAt(item, 1) = "bang"
                   THEN [e |-> FALSE, id |-> PayloadId(Tail(item), "arch")]
                   ELSE [e |-> TRUE,  id |-> PayloadId(item, "arch")]
ParseArchs(content) == LET items == PSplitBlank(PStrip(content), "arch")
                       IN [l   |-> [i \in 1..Len(items) |-> ArchEntry(items[i])],
                           exc |-> \E i \in 1..Len(items) : items[i] = <<>>]

\* parse_restrictions: strip('<> '), split at >\s*<, blank split, (!)?([^\s]+) per non-empty item
RECURSIVE StripLo(_, _)
StripLo(t, i) == IF KindAt(t, i) \in {"lt", "gt", "sp"} THEN StripLo(t, i + 1) ELSE i
RECURSIVE StripHi(_, _)
StripHi(t, i) == IF KindAt(t, i) \in {"lt", "gt", "sp"} THEN StripHi(t, i - 1) ELSE i
StripAngles(t) == LET lo == StripLo(t, 1) hi == StripHi(t, Len(t))
                  IN IF lo > hi THEN <<>> ELSE SubSeq(t, lo, hi)
\* split at '>\s*<': a separator starts at a '>' whose next non-blank token is '<' and ends at that '<'
\* (two separators cannot overlap: the next one starts at a '>' behind this '<')
RGroups(t) ==
   LET pos == SelectSeq(Indices(t), LAMBDA i : t[i].k = "gt" /\ KindAt(t, SkipSp(t, i + 1)) = "lt")
       np  == NSplits(pos, "groups")
   IN [k \in 1..(np + 1) |-> SubSeq(t, IF k = 1 THEN 1 ELSE SkipSp(t, pos[k - 1] + 1) + 1,
                                      IF k = np + 1 THEN Len(t) ELSE pos[k] - 1)]
TermEntry(item) == IF ~IgnoreNegation /\ KindAt(item, 1) = "bang" /\ Len(item) >= 2
                   THEN [e |-> FALSE, id |-> PayloadId(Tail(item), "prof")]
                   ELSE [e |-> TRUE,  id |-> PayloadId(item, "prof")]
ParseGroup(g) == LET items == SelectSeq(PSplitBlank(g, "terms"), LAMBDA it : it # <<>>)
                 IN [i \in 1..Len(items) |-> TermEntry(items[i])]
ParseRestrictions(content) == LET gs == RGroups(StripAngles(content))
                              IN [i \in 1..Len(gs) |-> ParseGroup(gs[i])]

NoMatch == [ok |-> FALSE, exc |-> FALSE, atom |-> RawAtom]

\* parse_rel: __dep_RE.match(raw), one LET block per group of the regex
ParseAtom(t) ==
   LET i0 == SkipSp(t, 1) IN                                   \* ^\s*(?P<name>...)
   IF KindAt(t, i0) # "name" THEN NoMatch ELSE
   LET hasQ == KindAt(t, i0 + 1) = "colon" /\ KindAt(t, i0 + 2) = "qual"      \* (:(?P<archqual>...))?
       q    == IF hasQ THEN t[i0 + 2].id ELSE 0
       i2   == IF hasQ THEN i0 + 3 ELSE i0 + 1
       \* (\s*\(\s*(?P<relop>[>=<]+)\s*(?P<version>...)\s*\))?
       p1   == SkipSp(t, i2)
       vTry == KindAt(t, p1) = "lpar"
       p2   == SkipSp(t, p1 + 1)
       p3   == SkipSp(t, p2 + 1)
       p4   == SkipSp(t, p3 + 1)
       vOk  == vTry /\ KindAt(t, p2) = "op" /\ KindAt(t, p3) = "ver" /\ KindAt(t, p4) = "rpar"
   IN IF vTry /\ ~vOk THEN NoMatch ELSE                        \* nothing later can consume a '('
   LET v    == IF vOk THEN [some |-> TRUE, op |-> t[p2].id, ver |-> t[p3].id] ELSE NoVer
       i3   == IF vOk THEN p4 + 1 ELSE i2
       \* (\s*\[(?P<archs>[\s!\w\-]+)\])?
       b1   == SkipSp(t, i3)
       aTry == KindAt(t, b1) = "lbr"
       b2   == FirstOfKind(t, b1 + 1, "rbr")
       aOk  == /\ aTry /\ b2 <= Len(t) /\ b2 > b1 + 1
               /\ \A x \in (b1 + 1)..(b2 - 1) : t[x].k \in {"sp", "bang", "arch"}
   IN IF aTry /\ ~aOk THEN NoMatch ELSE
   LET archs == IF aOk THEN ParseArchs(SubSeq(t, b1 + 1, b2 - 1)) ELSE [l |-> <<>>, exc |-> FALSE]
       i4   == IF aOk THEN b2 + 1 ELSE i3
       \* \s*((?P<restrictions><.+>))?\s*$      (greedy: up to the last '>')
       r1   == SkipSp(t, i4)
       rTry == KindAt(t, r1) = "lt"
       r2   == LastOfKind(t, Len(t), "gt")
       rOk  == rTry /\ r2 > r1 + 1 /\ SkipSp(t, r2 + 1) > Len(t)
   IN IF rTry /\ ~rOk THEN NoMatch
      ELSE IF ~rTry /\ r1 <= Len(t) THEN NoMatch               \* $ not reached
      ELSE [ok   |-> TRUE,
            exc  |-> archs.exc,
            atom |-> Atom(t[i0].id, q, v,
                          IF aOk THEN SomeList(archs.l) ELSE NoneList,
                          IF rOk THEN SomeList(ParseRestrictions(SubSeq(t, r1, r2))) ELSE NoneList)]

\* parse_relations: [[parse_rel(or_dep) for or_dep in pipe-split] for each comma-split piece of raw.strip()]
Parse(toks) ==
   LET outer == IF PipeFirst THEN "pipe" ELSE "comma"
       inner == IF PipeFirst THEN "comma" ELSE "pipe"
       tl    == PSplitSep(PStrip(toks), outer)
       cnf   == [i \in 1..Len(tl) |-> PSplitSep(tl[i], inner)]
       res   == [i \in 1..Len(cnf) |-> [j \in 1..Len(cnf[i]) |-> ParseAtom(cnf[i][j])]]
   IN [rel  |-> [i \in 1..Len(res) |-> [j \in 1..Len(res[i]) |-> res[i][j].atom]],
       warn |-> \E i \in 1..Len(res) : \E j \in 1..Len(res[i]) : ~res[i][j].ok,
       exc  |-> \E i \in 1..Len(res) : \E j \in 1..Len(res[i]) : res[i][j].exc]

----------------------------------------------------------------------------
\* in-place EDITS of a structure (PkgRelationEdit, TracePkgRelation step 7): a structure the caller got from
\* parse_relations is a tree of mutable Python objects -- the result list, the conjunct lists, the dicts, the `arch`
\* list, the `restrictions` list and its group lists -- and every one of them has its own mutators.  An edit is a
\* record [lv, op, i, j, g, k, x]:
\*   lv  the CONTAINER whose mutator is called: "conj" (the result list), "alt" (conjunct i), "key" (the dict of
\*       atom i, j: d[key] = x), "arch" (d['arch'] of atom i, j), "groups" (d['restrictions']), "terms" (group g of it)
\*   op  "append" (x) / "insert" (x before position k) / "del" (position k) / "set" (position k := x) / "rev"
\*       (list.reverse());  for lv = "key" the key that is assigned: "name" / "q" / "v" / "a" / "r"
\*   x   the new item -- a conjunct, an atom, an [e, id] entry (a namedtuple), a group -- or the new value of the
\*       key (0 where the operation has none)
\* ApplyEdit is the value semantics of the Python list methods; EditOk keeps the structure inside the domain (no
\* list becomes empty; the nested list that is edited exists).
SeqDel(s, k)    == SubSeq(s, 1, k - 1) \o SubSeq(s, k + 1, Len(s))
SeqIns(s, k, x) == SubSeq(s, 1, k - 1) \o <<x>> \o SubSeq(s, k, Len(s))
SeqRev(s)       == [n \in 1..Len(s) |-> s[Len(s) + 1 - n]]
ListEdit(s, e)  == CASE e.op = "append" -> Append(s, e.x)
                     [] e.op = "insert" -> SeqIns(s, e.k, e.x)
                     [] e.op = "del"    -> SeqDel(s, e.k)
                     [] e.op = "set"    -> [s EXCEPT ![e.k] = e.x]
                     [] e.op = "rev"    -> SeqRev(s)
ListOk(s, e)    == CASE e.op \in {"append", "rev"} -> TRUE
                     [] e.op = "insert" -> e.k \in 1..(Len(s) + 1)
                     [] e.op = "set"    -> e.k \in 1..Len(s)
                     [] e.op = "del"    -> e.k \in 1..Len(s) /\ Len(s) > 1
                     [] OTHER -> FALSE
KeyEdit(a, e)   == CASE e.op = "name" -> [a EXCEPT !.name = e.x]
                     [] e.op = "q"    -> [a EXCEPT !.q = e.x]
                     [] e.op = "v"    -> [a EXCEPT !.v = e.x]
                     [] e.op = "a"    -> [a EXCEPT !.a = e.x]
                     [] e.op = "r"    -> [a EXCEPT !.r = e.x]
AtomLevels == {"key", "arch", "groups", "terms"}                 \* the containers inside one dict
EditLevels == {"conj", "alt"} \cup AtomLevels
AtomAt(r, e) == e.i \in 1..Len(r) /\ e.j \in 1..Len(r[e.i])
EditOk(r, e) == CASE e.lv = "conj"   -> ListOk(r, e)
                  [] e.lv = "alt"    -> e.i \in 1..Len(r) /\ ListOk(r[e.i], e)
                  [] e.lv = "key"    -> AtomAt(r, e) /\ e.op \in {"name", "q", "v", "a", "r"}
                  [] e.lv = "arch"   -> AtomAt(r, e) /\ r[e.i][e.j].a.some /\ ListOk(r[e.i][e.j].a.l, e)
                  [] e.lv = "groups" -> AtomAt(r, e) /\ r[e.i][e.j].r.some /\ ListOk(r[e.i][e.j].r.l, e)
                  [] e.lv = "terms"  -> /\ AtomAt(r, e) /\ r[e.i][e.j].r.some
                                        /\ e.g \in 1..Len(r[e.i][e.j].r.l) /\ ListOk(r[e.i][e.j].r.l[e.g], e)
                  [] OTHER -> FALSE
ApplyEdit(r, e) == CASE e.lv = "conj"   -> ListEdit(r, e)
                     [] e.lv = "alt"    -> [r EXCEPT ![e.i] = ListEdit(@, e)]
                     [] e.lv = "key"    -> [r EXCEPT ![e.i][e.j] = KeyEdit(@, e)]
                     [] e.lv = "arch"   -> [r EXCEPT ![e.i][e.j].a.l = ListEdit(@, e)]
                     [] e.lv = "groups" -> [r EXCEPT ![e.i][e.j].r.l = ListEdit(@, e)]
                     [] e.lv = "terms"  -> [r EXCEPT ![e.i][e.j].r.l[e.g] = ListEdit(@, e)]
\* the structures after each edit of a sequence (<<>> from the first edit on that is not applicable)
RECURSIVE EditTrail(_, _, _)
EditTrail(r, es, n) == IF n > Len(es) THEN <<>>
                       ELSE IF ~EditOk(r, es[n]) THEN <<>>
                       ELSE LET r2 == ApplyEdit(r, es[n]) IN <<r2>> \o EditTrail(r2, es, n + 1)

----------------------------------------------------------------------------
\* the structure space

FlagSeqs(n)  == UNION {[1..k -> BOOLEAN] : k \in 1..n}            \* plain/negated, 1..n entries
Entries(f, base) == [i \in 1..Len(f) |-> [e |-> f[i], id |-> base + i]]
ArchShapes   == {NoneList} \cup {SomeList(Entries(f, 0)) : f \in FlagSeqs(MaxArch)}
GroupLists   == UNION {[1..g -> FlagSeqs(MaxTerms)] : g \in 1..MaxGroups}
RestrShapes  == {NoneList} \cup
                {SomeList([i \in 1..Len(gl) |-> Entries(gl[i], (i - 1) * MaxTerms)]) : gl \in GroupLists}
VerShapes    == {NoVer} \cup {[some |-> TRUE, op |-> o, ver |-> 1] : o \in OpIds}
FocusAtoms   == {Atom(1, q, v, a, r) : q \in {0, 1}, v \in VerShapes, a \in ArchShapes, r \in RestrShapes}

CtxAtom(kind) ==
   IF kind = "bare" THEN Atom(1, 0, NoVer, NoneList, NoneList)
   ELSE Atom(1, 1, [some |-> TRUE, op |-> 4, ver |-> 1],
             SomeList(<<[e |-> FALSE, id |-> 1], [e |-> TRUE, id |-> 2]>>),
             SomeList(<<<<[e |-> FALSE, id |-> 1], [e |-> TRUE, id |-> 2]>>, <<[e |-> TRUE, id |-> 3]>>>>))

\* name / qualifier / version ids := position of the atom in the relation (atoms stay distinguishable)
RECURSIVE AtomsBefore(_, _)
AtomsBefore(r, i) == IF i <= 1 THEN 0 ELSE Len(r[i - 1]) + AtomsBefore(r, i - 1)
Renumber(r) ==
   [i \in 1..Len(r) |-> [j \in 1..Len(r[i]) |->
       LET n == AtomsBefore(r, i) + j
           a == r[i][j]
       IN Atom(n, IF a.q = 0 THEN 0 ELSE n, IF a.v.some THEN [a.v EXCEPT !.ver = n] ELSE a.v, a.a, a.r)]]

\* [R: the relation with ids assigned, f: Format(R), p: Parse(f)]
Derive(r) == LET rr == Renumber(r)
                 f  == FormatK(rr, kord)
             IN [R |-> rr, f |-> f, p |-> Parse(f)]

Init == /\ ctx \in CtxKinds
        /\ kord \in KeyOrders
        /\ rel \in {<<<<a>>>> : a \in FocusAtoms}

\* grow the relation around the focus atom with context atoms, on either side
NAtoms(r)   == AtomsBefore(r, Len(r) + 1)
AppendAlt   == /\ Len(rel[Len(rel)]) < MaxAlt
               /\ rel' = [rel EXCEPT ![Len(rel)] = Append(@, CtxAtom(ctx))]
PrependAlt  == /\ Len(rel[1]) < MaxAlt
               /\ rel' = [rel EXCEPT ![1] = <<CtxAtom(ctx)>> \o @]
AppendConj  == /\ Len(rel) < MaxConj
               /\ rel' = Append(rel, <<CtxAtom(ctx)>>)
PrependConj == /\ Len(rel) < MaxConj
               /\ rel' = <<<<CtxAtom(ctx)>>>> \o rel
Next == /\ NAtoms(rel) < MaxAtoms
        /\ (AppendAlt \/ PrependAlt \/ AppendConj \/ PrependConj)
        /\ UNCHANGED <<ctx, kord>>
Spec == Init /\ [][Next]_vars

----------------------------------------------------------------------------
\* what is checked in every state (= for every structure of the space)

TypeOK == /\ Len(rel) \in 1..MaxConj
          /\ \A i \in 1..Len(rel) : Len(rel[i]) \in 1..MaxAlt

WellFormedOf(d) == TokWellFormed(d.f)
InverseOf(d)    == d.p.rel = d.R /\ ~d.p.exc          \* Parse(Format(r)) = r
NoWarningOf(d)  == ~d.p.warn
StableOf(d)     == Format(d.p.rel) = d.f              \* Format(Parse(Format(r))) = Format(r)

\* named invariants (small configurations, negative controls)
FormatIgnoresKeyOrder == FormatK(Renumber(rel), kord) = Format(Renumber(rel))
TokensWellFormed == WellFormedOf(Derive(rel))
Inverse          == InverseOf(Derive(rel))
NoWarning        == NoWarningOf(Derive(rel))
Stable           == StableOf(Derive(rel))

----------------------------------------------------------------------------
\* emission for the harness (spec -> code): one CASE line per structure

EncEntry(e)  == <<IF e.e THEN 1 ELSE 0, e.id>>
EncEntries(l) == [i \in 1..Len(l) |-> EncEntry(l[i])]
\* None is written as the empty array (lists of the structure space are never empty)
EncAtom(a) == [n |-> a.name, q |-> a.q,
               v |-> IF a.v.some THEN <<a.v.op, a.v.ver>> ELSE <<>>,
               a |-> IF a.a.some THEN EncEntries(a.a.l) ELSE <<>>,
               r |-> IF a.r.some THEN [i \in 1..Len(a.r.l) |-> EncEntries(a.r.l[i])] ELSE <<>>]
EncRel(r)  == [i \in 1..Len(r) |-> [j \in 1..Len(r[i]) |-> EncAtom(r[i][j])]]
EncToks(t) == [i \in 1..Len(t) |-> EncTok(t[i])]

EmitOf(d) == Emit => PrintT(<<"CASE", ToJson([r |-> EncRel(d.R), t |-> EncToks(d.f), c |-> ctx])>>)

\* the big configurations check the same five predicates with Format / Parse evaluated once per
\* structure (the CASE line is printed only for a structure that satisfies them)
AllProps == LET d == Derive(rel)
            IN TypeOK /\ WellFormedOf(d) /\ InverseOf(d) /\ NoWarningOf(d) /\ StableOf(d) /\ EmitOf(d)
=============================================================================
