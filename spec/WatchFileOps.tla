---------------------------- MODULE WatchFileOps ----------------------------
(***************************************************************************)
(* X02 (extra) -- the public objects of debian.watch as VALUES.            *)
(* A WatchFile is [ver, o, es] (version, global options, entries), an      *)
(* entry [url, mp, vr, sc, o]; <<>> stands for None.  What the caller can  *)
(* do with the objects he holds (they are plain attributes and lists), one *)
(* operator per call; `objs` is the sequence of live WatchFile objects in  *)
(* order of creation.  Every call changes the object it is applied to and  *)
(* NOTHING ELSE: that is the reference the heap model WatchFileObjs        *)
(* refines and the recorded API traces are validated against               *)
(* (TraceWatchFile).                                                       *)
(***************************************************************************)
EXTENDS Integers, Sequences

OVal(ver, o, es) == [ver |-> ver, o |-> o, es |-> es]
ODefault         == OVal(4, <<>>, <<>>)                           \* WatchFile(): DEFAULT_VERSION, no entries, no options

ONew(objs, v)                == Append(objs, v)                   \* WatchFile(entries=.., options=.., version=..), from_lines
OAddOpt(objs, t, x)          == [objs EXCEPT ![t].o = Append(@, x)]                 \* wf.options.append(x)
OAddEnt(objs, t, e)          == [objs EXCEPT ![t].es = Append(@, e)]                \* wf.entries.append(Watch(..))
OEntOpt(objs, t, i, x)       == [objs EXCEPT ![t].es[i].o = Append(@, x)]           \* wf.entries[i].options.append(x)
OSetVer(objs, t, v)          == [objs EXCEPT ![t].ver = v]                          \* wf.version = v
ODelEnt(objs, t, i)          == [objs EXCEPT ![t].es = SubSeq(@, 1, i - 1) \o SubSeq(@, i + 1, Len(@))]   \* del wf.entries[i]
OSetField(objs, t, i, f, x)  ==                                                     \* wf.entries[i].<f> = x
   CASE f = "url" -> [objs EXCEPT ![t].es[i].url = x]
     [] f = "mp"  -> [objs EXCEPT ![t].es[i].mp = x]
     [] f = "vr"  -> [objs EXCEPT ![t].es[i].vr = x]
     [] f = "sc"  -> [objs EXCEPT ![t].es[i].sc = x]
=============================================================================
