CONSTANTS
  NoText = ""
  TrimEnd = TRUE
  LenientBlank = FALSE
  FlushOnError = FALSE
  MaxLen = 5
  MaxLines = 0
  BigSel = {}
  Emit = TRUE
SPECIFICATION ESpec
INVARIANT EShape
INVARIANT ERunAgrees
INVARIANT EPad
INVARIANT EmitLine
CHECK_DEADLOCK FALSE
