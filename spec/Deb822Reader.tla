---------------------------- MODULE Deb822Reader ----------------------------
(***************************************************************************)
(* C02 -- line-level model of the Deb822 reader of lib/debian/deb822.py    *)
(* (Deb822.__init__ / iter_paragraphs with use_apt_pkg=False) and of its    *)
(* inverse, dump().                                                        *)
(*                                                                         *)
(* A document is a sequence of LINES [c, k, t, sp]: c = line class,        *)
(* k = field name (field lines), t = text token (trimmed first-line data   *)
(* of a Single line, the complete text of a Cont line), sp = "the data is  *)
(* surrounded by white space that the reader has to trim".  Names and      *)
(* texts are opaque (small integers in the bounded configuration, real     *)
(* strings in trace validation).                                           *)
(*                                                                         *)
(* The reader is the composition, in the order of the code, of             *)
(*   SkipUseless    (_skip_useless_lines: '#' lines anywhere, empty lines  *)
(*                   while atBeg),                                         *)
(*   SplitGpg       (split_gpg_and_payload: first, gst = SAFE|MSG|SIG,     *)
(*                   pre = gpg_pre_lines non-empty, pay = payload          *)
(*                   non-empty; a blank line ends the paragraph only when  *)
(*                   no armor was seen; WsSeparates = strict flag          *)
(*                   'whitespace-separates-paragraphs'),                   *)
(*   AssembleFields (_internal_parser: open/curkey/content; _single,       *)
(*                   _multi, _multidata; anything else is ignored),        *)
(*   IterParagraphs (a new reader per paragraph; stop at the first empty   *)
(*                   paragraph or at EOF).                                 *)
(* One BRANCH per branch of those loops: G(b, s, c) is its guard,          *)
(* Apply(b, s, ln) its effect.  BranchOf is the same decision written as   *)
(* a function (used by Parse); the closed configuration checks that the    *)
(* guards are total and exclusive and agree with BranchOf.                 *)
(*                                                                         *)
(* Approximations (both outside the C02 domain, diagnostic only): with    *)
(* ~WsSeparates a white-space-only payload line is modelled as a           *)
(* continuation line (the code needs >= 2 characters for that); an armor   *)
(* header line that reaches the payload is an ordinary Single line.        *)
(* Duplicate names keep the first position and the last value; names are   *)
(* compared as given (the harness never uses two spellings of one name).   *)
(*                                                                         *)
(* raw = TRUE is the pre-pass of the _gpg_multivalued classes (Dsc,        *)
(* Changes, BuildInfo) for non-str input: split_gpg_and_payload WITHOUT    *)
(* SkipUseless, whose payload is then parsed by the ordinary reader        *)
(* (GpgMvParse).                                                           *)
(*                                                                         *)
(* Configurations                                                          *)
(*   MC_Deb822Reader_lts*.cfg  LSpec: closed automaton over one line per   *)
(*        class (VIEW drops the history): Totality, BranchAgrees, EofRule, *)
(*        StoppedAbsorbing; EDGE lines.                                    *)
(*   MC_Deb822Reader_bnd*.cfg  BSpec: every document of <= MaxPara        *)
(*        paragraphs x <= MaxFields fields (<= MaxTotal fields in all;     *)
(*        ShapeMode = 1: only two value shapes) x                          *)
(*        values with empty/non-empty first line and 0..MaxCont            *)
(*        continuation lines: RoundTrip, ParseOneOk, CommentInvariant,     *)
(*        LeadingBlankInvariant, TrailingInvariant, SeparatorInvariant,    *)
(*        ArmorInvariant, GpgMvAgrees; CASE lines.                         *)
(* Negative controls tried (each makes TLC report the named invariant):    *)
(*   TrimFirst = FALSE          -> RoundTrip                               *)
(*   CommentEndsValue = TRUE    -> CommentInvariant                        *)
(*   LeadingBlankSkipped = FALSE-> LeadingBlankInvariant                   *)
(*   ArmorHeadersSkipped = FALSE-> ArmorInvariant ("Hash: .." read as a     *)
(*                                 field)                                  *)
(*   GpgMvLeadOK = FALSE        -> GpgMvAgrees  (this one is what the      *)
(*        CODE does: a leading comment followed by a blank line hides the  *)
(*        paragraph from Dsc/Changes given a list or file; classified      *)
(*        unspecified for C02, see harness/props/c02.py)                   *)
(***************************************************************************)
EXTENDS Naturals, Sequences, FiniteSets, TLC, Json

CONSTANTS WsSeparates,          \* strict['whitespace-separates-paragraphs'] (default TRUE)
          NoText,               \* token of an empty first line / absent name (0 or "")
          TrimFirst,            \* design: TRUE
          CommentEndsValue,     \* design: FALSE
          LeadingBlankSkipped,  \* design: TRUE
          ArmorHeadersSkipped,  \* design: TRUE (the lines after BEGIN PGP SIGNED MESSAGE up to a blank one are armor)
          GpgMvLeadOK,          \* TRUE: GpgMvAgrees excludes leading comment+blank (unspecified zone)
          Keys,                 \* names used by the closed configuration
          MaxPara, MaxFields, MaxCont, MaxTotal,   \* bounds of the bounded configuration
          ShapeMode,            \* 0: every value shape; 1: only "v" and "<empty>+MaxCont lines" (wide documents)
          ArmorHdrs,            \* set of numbers of armor header lines tried (subset of 0..2)
          ArmorMaxFields,       \* ArmorInvariant / GpgMvAgrees are evaluated for single paragraphs of at most so many fields
          BigSel,               \* indexes into BigTable (size-stress configuration)
          SigBools,             \* values tried for "blank line / armor header after BEGIN PGP SIGNATURE"
          Emit

VARIABLES rd,     \* reader state (closed configuration)
          doc     \* document shape under construction (bounded configuration)

vars == <<rd, doc>>

Classes == {"Blank", "WsOnly", "Comment", "Single", "Multi", "Cont", "Junk",
            "PgpBeginMsg", "PgpBeginSig", "PgpEnd", "ArmorHeader"}

Ln(c, k, t, sp) == [c |-> c, k |-> k, t |-> t, sp |-> sp]
BlankLn   == Ln("Blank", NoText, NoText, FALSE)
WsLn      == Ln("WsOnly", NoText, NoText, FALSE)
CommentLn == Ln("Comment", NoText, NoText, FALSE)
JunkLn    == Ln("Junk", NoText, NoText, FALSE)
BeginMsgLn == Ln("PgpBeginMsg", NoText, NoText, FALSE)
BeginSigLn == Ln("PgpBeginSig", NoText, NoText, FALSE)
EndLn     == Ln("PgpEnd", NoText, NoText, FALSE)

----------------------------------------------------------------------------
(* reader state *)
RInit(raw) == [raw |-> raw, stopped |-> FALSE,
               ws |-> WsSeparates,
               filt |-> FALSE, want |-> {},     \* fields=...: only names in want are kept (filt = FALSE: all)
               done |-> <<>>,        \* completed paragraphs (sequences of [k, v])
               donePay |-> <<>>,     \* their payloads (only read by GpgMvParse)
               atBeg |-> TRUE, first |-> TRUE, gst |-> "SAFE", pre |-> FALSE,
               pay |-> FALSE, payl |-> <<>>,
               fields |-> <<>>, open |-> FALSE, curkey |-> NoText, content |-> <<>>]

\* self[curkey] = content: an existing name keeps its place, the value is replaced
Commit(fs, k, v) == IF \E i \in 1..Len(fs) : fs[i].k = k
                    THEN [i \in 1..Len(fs) |-> IF fs[i].k = k THEN [k |-> k, v |-> v] ELSE fs[i]]
                    ELSE Append(fs, [k |-> k, v |-> v])
Flush(s) == IF s.open THEN Commit(s.fields, s.curkey, s.content) ELSE s.fields

\* s.ws = the strictness flag of this reader (the constant WsSeparates unless a call says otherwise)
IsBlankSep(s, c) == c = "Blank" \/ (s.ws /\ c = "WsOnly")
IsPgp(c)      == c \in {"PgpBeginMsg", "PgpBeginSig", "PgpEnd"}
ContLike(c)   == c \in {"Cont", "WsOnly"}   \* WsOnly reaches the payload only when ~WsSeparates

Branches == {"Stopped", "SkipComment", "SkipLeadingBlank", "SkipInitialBlank", "PgpBegin", "PgpEnd",
             "BlankEndsParagraph", "BlankInArmoredBody", "FieldSingle", "FieldMulti", "ContAppend",
             "ContOrphan", "Ignored", "ArmorHeadersEnd", "ArmorHeaderLine", "SignatureLine"}

\* ---- guards, layer by layer as in the code
UselessComment(s, c) == ~s.raw /\ c = "Comment"
UselessBlank(s, c)   == ~s.raw /\ s.atBeg /\ c = "Blank" /\ LeadingBlankSkipped
Yielded(s, c)  == ~s.stopped /\ ~UselessComment(s, c) /\ ~UselessBlank(s, c)
InitialBlank(s, c) == s.first /\ c \in {"Blank", "WsOnly"} /\ LeadingBlankSkipped
Active(s, c)   == Yielded(s, c) /\ ~InitialBlank(s, c)
Plain(s, c)    == Active(s, c) /\ ~IsPgp(c)
Payload(s, c)  == Plain(s, c) /\ s.gst = "SAFE" /\ ~IsBlankSep(s, c)

G(b, s, c) ==
  CASE b = "Stopped"            -> s.stopped
    [] b = "SkipComment"        -> ~s.stopped /\ UselessComment(s, c)
    [] b = "SkipLeadingBlank"   -> ~s.stopped /\ UselessBlank(s, c)
    [] b = "SkipInitialBlank"   -> Yielded(s, c) /\ InitialBlank(s, c)
    [] b = "PgpBegin"           -> Active(s, c) /\ c \in {"PgpBeginMsg", "PgpBeginSig"}
    [] b = "PgpEnd"             -> Active(s, c) /\ c = "PgpEnd"
    [] b = "BlankEndsParagraph" -> Plain(s, c) /\ s.gst = "SAFE" /\ IsBlankSep(s, c) /\ ~s.pre
    [] b = "BlankInArmoredBody" -> Plain(s, c) /\ s.gst = "SAFE" /\ IsBlankSep(s, c) /\ s.pre
    [] b = "FieldSingle"        -> Payload(s, c) /\ c \in {"Single", "ArmorHeader"}
    [] b = "FieldMulti"         -> Payload(s, c) /\ c = "Multi"
    [] b = "ContAppend"         -> Payload(s, c) /\ ContLike(c) /\ s.open
    [] b = "ContOrphan"         -> Payload(s, c) /\ ContLike(c) /\ ~s.open
    [] b = "Ignored"            -> Payload(s, c) /\ c \in {"Junk", "Comment"}
    [] b = "ArmorHeadersEnd"    -> Plain(s, c) /\ s.gst = "MSG" /\ IsBlankSep(s, c)
    [] b = "ArmorHeaderLine"    -> Plain(s, c) /\ s.gst = "MSG" /\ ~IsBlankSep(s, c)
    [] b = "SignatureLine"      -> Plain(s, c) /\ s.gst = "SIG"

\* ---- the same decision as a function (the order of the tests in the code)
BranchOf(s, c) ==
  IF s.stopped THEN "Stopped"
  ELSE IF UselessComment(s, c) THEN "SkipComment"
  ELSE IF UselessBlank(s, c) THEN "SkipLeadingBlank"
  ELSE IF InitialBlank(s, c) THEN "SkipInitialBlank"
  ELSE IF c \in {"PgpBeginMsg", "PgpBeginSig"} THEN "PgpBegin"
  ELSE IF c = "PgpEnd" THEN "PgpEnd"
  ELSE IF s.gst = "SAFE" THEN
         IF IsBlankSep(s, c) THEN (IF s.pre THEN "BlankInArmoredBody" ELSE "BlankEndsParagraph")
         ELSE IF c \in {"Single", "ArmorHeader"} THEN "FieldSingle"
         ELSE IF c = "Multi" THEN "FieldMulti"
         ELSE IF ContLike(c) THEN (IF s.open THEN "ContAppend" ELSE "ContOrphan")
         ELSE "Ignored"
  ELSE IF s.gst = "MSG" THEN (IF IsBlankSep(s, c) THEN "ArmorHeadersEnd" ELSE "ArmorHeaderLine")
  ELSE "SignatureLine"

\* ---- effects
\* the paragraph is finished: IterParagraphs yields it and starts a new reader, or stops when it is empty
EndPara(s) == LET f == Flush(s) IN
  [RInit(s.raw) EXCEPT !.filt = s.filt, !.want = s.want, !.ws = s.ws,
                       !.done = IF f = <<>> THEN s.done ELSE Append(s.done, f),
                       !.donePay = Append(s.donePay, s.payl),
                       !.stopped = (f = <<>>)]
Seen(s)      == [s EXCEPT !.atBeg = FALSE, !.first = FALSE]
TakeLine(s, ln) == [Seen(s) EXCEPT !.pay = TRUE, !.payl = Append(s.payl, ln)]
\* fields=[...]: a field line whose name is not wanted closes the current field and opens none
\* (its continuation lines are then orphans)
Unwanted(s, ln) == s.filt /\ ln.k \notin s.want
FirstText(ln) == IF TrimFirst \/ ~ln.sp THEN ln.t ELSE 1000 + ln.t   \* (negative control only)

Apply(b, s, ln) ==
  CASE b = "Stopped"            -> s
    [] b = "SkipComment"        -> IF CommentEndsValue THEN [s EXCEPT !.fields = Flush(s), !.open = FALSE] ELSE s
    [] b = "SkipLeadingBlank"   -> s
    [] b = "SkipInitialBlank"   -> [s EXCEPT !.atBeg = FALSE]
    [] b = "PgpBegin"           -> [Seen(s) EXCEPT !.gst = IF ln.c = "PgpBeginSig" THEN "SIG"
                                                           ELSE IF ArmorHeadersSkipped THEN "MSG" ELSE "SAFE",
                                                   !.pre = s.pre \/ ~s.pay]
    [] b = "PgpEnd"             -> EndPara(s)
    [] b = "BlankEndsParagraph" -> EndPara(s)
    [] b = "BlankInArmoredBody" -> Seen(s)
    [] b = "FieldSingle"        -> IF Unwanted(s, ln) THEN [TakeLine(s, ln) EXCEPT !.fields = Flush(s), !.open = FALSE]
                                   ELSE [TakeLine(s, ln) EXCEPT !.fields = Flush(s), !.open = TRUE,
                                                                !.curkey = ln.k, !.content = <<FirstText(ln)>>]
    [] b = "FieldMulti"         -> IF Unwanted(s, ln) THEN [TakeLine(s, ln) EXCEPT !.fields = Flush(s), !.open = FALSE]
                                   ELSE [TakeLine(s, ln) EXCEPT !.fields = Flush(s), !.open = TRUE,
                                                                !.curkey = ln.k, !.content = <<NoText>>]
    [] b = "ContAppend"         -> [TakeLine(s, ln) EXCEPT !.content = Append(s.content, ln.t)]
    [] b = "ContOrphan"         -> TakeLine(s, ln)
    [] b = "Ignored"            -> TakeLine(s, ln)
    [] b = "ArmorHeadersEnd"    -> [Seen(s) EXCEPT !.gst = "SAFE"]
    [] b = "ArmorHeaderLine"    -> [Seen(s) EXCEPT !.pre = TRUE]
    [] b = "SignatureLine"      -> Seen(s)

StepF(s, ln) == Apply(BranchOf(s, ln.c), s, ln)

\* the automaton run over ls[lo..hi] (split in halves: recursion depth log n, large documents stay cheap)
RECURSIVE RunRange(_, _, _, _)
RunRange(s, ls, lo, hi) == IF lo > hi THEN s
                           ELSE IF lo = hi THEN StepF(s, ls[lo])
                           ELSE LET mid  == (lo + hi) \div 2
                                    left == RunRange(s, ls, lo, mid)
                                IN \* (the test forces TLC to evaluate the left half now: its arguments are lazy,
                                   \*  and a chain of pending halves would make the Java stack as deep as the input)
                                   IF left.stopped \in BOOLEAN THEN RunRange(left, ls, mid + 1, hi) ELSE left
Run(raw, ls) == RunRange(RInit(raw), ls, 1, Len(ls))

\* what the caller has at end of input (EOFError on an empty payload = empty paragraph = stop)
Finish(s) == IF s.stopped THEN s.done
             ELSE LET f == Flush(s) IN IF f = <<>> THEN s.done ELSE Append(s.done, f)

ParseW(ls, W) == Finish(RunRange([RInit(FALSE) EXCEPT !.filt = TRUE, !.want = W], ls, 1, Len(ls)))   \* fields=W
ParseS(ls, ws) == Finish(RunRange([RInit(FALSE) EXCEPT !.ws = ws], ls, 1, Len(ls)))     \* strict={...: ws}
Parse(ls)    == Finish(Run(FALSE, ls))                       \* list(Deb822.iter_paragraphs(x))
ParseOne(ls) == LET r == Parse(ls) IN IF r = <<>> THEN <<>> ELSE r[1]    \* Deb822(x)

\* Dsc / Changes / BuildInfo given a list or a file: raw split first, then the ordinary reader
FirstPayloadS(ls, ws) == LET s == RunRange([RInit(TRUE) EXCEPT !.ws = ws], ls, 1, Len(ls))
                         IN IF s.donePay # <<>> THEN s.donePay[1] ELSE s.payl
FirstPayload(ls) == FirstPayloadS(ls, WsSeparates)
GpgMvParse(ls)   == ParseOne(FirstPayload(ls))
\* both passes with the same flag
GpgMvParseS(ls, ws) == LET r == ParseS(FirstPayloadS(ls, ws), ws) IN IF r = <<>> THEN <<>> ELSE r[1]

----------------------------------------------------------------------------
(* dump() and clearsign armor *)
\* concatenation of a sequence of sequences (divide and conquer: large documents stay cheap)
RECURSIVE FlatR(_, _, _)
FlatR(ss, lo, hi) == IF lo > hi THEN <<>>
                     ELSE IF lo = hi THEN ss[lo]
                     ELSE LET mid == (lo + hi) \div 2 IN FlatR(ss, lo, mid) \o FlatR(ss, mid + 1, hi)
Flat(ss) == FlatR(ss, 1, Len(ss))

DumpField(fl) == <<IF fl.v[1] = NoText THEN Ln("Multi", fl.k, NoText, FALSE)
                                        ELSE Ln("Single", fl.k, fl.v[1], TRUE)>>
                 \o [j \in 1..(Len(fl.v) - 1) |-> Ln("Cont", NoText, fl.v[j + 1], FALSE)]
DumpPara(p)   == Flat([i \in 1..Len(p) |-> DumpField(p[i])])
DumpSep(P, sep) == Flat([i \in 1..Len(P) |-> IF i = 1 THEN DumpPara(P[i]) ELSE sep \o DumpPara(P[i])])
Dump(P)       == DumpSep(P, <<BlankLn>>)

ArmorShapes == [nh : ArmorHdrs, b : BOOLEAN, sb : SigBools, sh : SigBools]
HdrLn(i)    == Ln("ArmorHeader", 900 + i, 900 + i, TRUE)
Armor(ls, a) == <<BeginMsgLn>> \o [i \in 1..a.nh |-> HdrLn(i)] \o <<BlankLn>> \o ls
                \o (IF a.b THEN <<BlankLn>> ELSE <<>>) \o <<BeginSigLn>>
                \o (IF a.sh THEN <<HdrLn(3)>> ELSE <<>>) \o (IF a.sb THEN <<BlankLn>> ELSE <<>>)
                \o <<JunkLn, JunkLn, EndLn>>

InsertAt(ls, i, x) == SubSeq(ls, 1, i) \o <<x>> \o SubSeq(ls, i + 1, Len(ls))
AllComments(ls)    == Flat([i \in 1..Len(ls) |-> <<CommentLn, ls[i]>>]) \o <<CommentLn>>

LeadSet == IF WsSeparates THEN {BlankLn, WsLn, CommentLn} ELSE {BlankLn, CommentLn}
Leads   == {<<>>} \cup {<<x>> : x \in LeadSet} \cup {<<x, y>> : x \in LeadSet, y \in LeadSet}
Seps    == {<<BlankLn>>, <<BlankLn, BlankLn>>, <<BlankLn, CommentLn>>, <<CommentLn, BlankLn>>,
            <<BlankLn, CommentLn, BlankLn>>}
           \cup (IF WsSeparates THEN {<<WsLn>>, <<BlankLn, WsLn>>, <<WsLn, BlankLn>>} ELSE {})

----------------------------------------------------------------------------
(* closed configuration: the automaton *)
Alphabet == {BlankLn, WsLn, CommentLn, JunkLn, BeginMsgLn, BeginSigLn, EndLn,
             Ln("Cont", NoText, 7, FALSE), HdrLn(1)}
            \cup {Ln("Single", k, 5, TRUE) : k \in Keys} \cup {Ln("Multi", k, NoText, FALSE) : k \in Keys}

View(s) == [raw |-> s.raw, stopped |-> s.stopped, atBeg |-> s.atBeg, first |-> s.first, gst |-> s.gst,
            pre |-> s.pre, pay |-> s.pay, open |-> s.open, curkey |-> IF s.open THEN s.curkey ELSE NoText,
            keys |-> [i \in 1..Len(s.fields) |-> s.fields[i].k]]
LView == View(rd)

Edge(ln, b) == Emit => PrintT(<<"EDGE", ToJson([from |-> View(rd), c |-> ln.c, k |-> ln.k, b |-> b, to |-> View(rd')])>>)

LInit == rd \in {RInit(FALSE), RInit(TRUE)} /\ doc = <<>>
LNext == \E ln \in Alphabet, b \in Branches :
            /\ G(b, rd, ln.c)
            /\ rd' = Apply(b, rd, ln)
            /\ UNCHANGED doc
            /\ Edge(ln, b)
LSpec == LInit /\ [][LNext]_vars

Totality     == \A c \in Classes : Cardinality({b \in Branches : G(b, rd, c)}) = 1
BranchAgrees == \A c \in Classes : G(BranchOf(rd, c), rd, c)
\* split_gpg_and_payload raises EOFError exactly when the payload is empty: then nothing was assembled
EofRule      == /\ rd.pay <=> (rd.payl # <<>>)
                /\ ~rd.pay => (rd.fields = <<>> /\ ~rd.open)
                /\ rd.stopped => (~rd.pay /\ rd.atBeg /\ rd.first /\ rd.gst = "SAFE")
\* the header machine: armor lines never reach the payload, payload lines are never blank separators
PayloadClean == \A i \in 1..Len(rd.payl) : ~IsPgp(rd.payl[i].c) /\ ~IsBlankSep(rd, rd.payl[i].c)
                                           /\ (~rd.raw => rd.payl[i].c # "Comment")
NoEmptyDone  == \A i \in 1..Len(rd.done) : rd.done[i] # <<>>
StoppedAbsorbing == [][rd.stopped => rd' = rd]_vars
DoneGrows    == [][Len(rd'.done) >= Len(rd.done) /\ SubSeq(rd'.done, 1, Len(rd.done)) = rd.done]_vars

----------------------------------------------------------------------------
(* bounded configuration: all documents *)
Shapes == IF ShapeMode = 0 THEN [e : BOOLEAN, n : 0..MaxCont]
          ELSE {[e |-> FALSE, n |-> 0], [e |-> TRUE, n |-> MaxCont]}
TextId(p, f, j) == (p * 1000 + f) * 1000 + j      \* p <= 1000, f < 1000, j < 1000: below 2^31
ValueOf(p, f, sh) == <<IF sh.e THEN NoText ELSE TextId(p, f, 0)>> \o [j \in 1..sh.n |-> TextId(p, f, j)]
DocOf(d) == [p \in 1..Len(d) |-> [f \in 1..Len(d[p]) |-> [k |-> f, v |-> ValueOf(p, f, d[p][f])]]]
RECURSIVE NFields(_)
NFields(d) == IF d = <<>> THEN 0 ELSE Len(Head(d)) + NFields(Tail(d))

BInit == rd = RInit(FALSE) /\ doc = <<>>
BNext == /\ UNCHANGED rd
         /\ NFields(doc) < MaxTotal
         /\ \E sh \in Shapes :
              \/ /\ doc # <<>> /\ Len(doc[Len(doc)]) < MaxFields
                 /\ doc' = [doc EXCEPT ![Len(doc)] = Append(@, sh)]
              \/ /\ Len(doc) < MaxPara
                 /\ doc' = Append(doc, <<sh>>)
BSpec == BInit /\ [][BNext]_vars

P == DocOf(doc)
D == Dump(P)

RoundTrip  == Parse(D) = P
ParseOneOk == P # <<>> => ParseOne(D) = P[1]
CommentInvariant ==
    /\ \A i \in 0..Len(D) : Parse(InsertAt(D, i, CommentLn)) = P
    /\ Parse(AllComments(D)) = P
CommentAllInvariant == Parse(AllComments(D)) = P
LeadingBlankInvariant == \A pre \in Leads : Parse(pre \o D) = P /\ Parse(pre \o AllComments(D)) = P
TrailingInvariant     == \A post \in Leads : P # <<>> => Parse(D \o post) = P
SeparatorInvariant    == \A sep \in Seps : Parse(DumpSep(P, sep)) = P
ArmorInvariant ==
    (Len(P) = 1 /\ Len(P[1]) <= ArmorMaxFields) => \A a \in ArmorShapes : LET A == Armor(D, a) IN
        /\ Parse(A) = P
        /\ ParseOne(A) = P[1]
        /\ FirstPayload(A) = D             \* Deb822.gpg_stripped_paragraph / split_gpg_and_payload()[1]
        /\ \A i \in 0..Len(A) : Parse(InsertAt(A, i, CommentLn)) = P
        /\ Parse(AllComments(A)) = P
        /\ \A pre \in Leads : Parse(pre \o A) = P
        /\ \A post \in Leads : Parse(A \o post) = P

\* the _gpg_multivalued pre-pass gives the same single paragraph ... outside the unspecified zone
\* "leading comment line(s) directly followed by a blank line" (GpgMvLeadOK = FALSE shows what happens inside)
CommentThenBlank(pre) == \E i \in 1..Len(pre) : \E j \in (i + 1)..Len(pre) :
                            pre[i].c = "Comment" /\ pre[j].c \in {"Blank", "WsOnly"}
GpgLeads == IF GpgMvLeadOK THEN {pre \in Leads : ~CommentThenBlank(pre)} ELSE Leads
GpgMvAgrees ==
    (Len(P) = 1 /\ Len(P[1]) <= ArmorMaxFields) =>
       /\ \A pre \in GpgLeads : GpgMvParse(pre \o D) = P[1]
       /\ \A i \in 0..Len(D) : GpgMvParse(InsertAt(D, i, CommentLn)) = P[1]
       /\ \A a \in ArmorShapes : LET A == Armor(D, a) IN
            /\ \A pre \in GpgLeads : GpgMvParse(pre \o A) = P[1]
            /\ \A i \in 0..Len(A) : GpgMvParse(InsertAt(A, i, CommentLn)) = P[1]
            /\ GpgMvParse(AllComments(A)) = P[1]

----------------------------------------------------------------------------
(* size stress: a few LARGE uniform documents (1000 paragraphs, 100 fields, 100+ continuation   *)
(* lines).  The automaton is the same; what is checked is that nothing in the specification     *)
(* depends on a count, and the harness gets TLC's expected parse for documents of that size.    *)
BigTable == << <<10, 1, 0>>, <<100, 2, 1>>, <<1000, 1, 0>>, <<1, 10, 1>>, <<1, 100, 0>>, <<1, 1, 120>>,
               <<2, 2, 101>>, <<10, 10, 2>>, <<33, 3, 9>>, <<1, 33, 17>>, <<257, 1, 1>> >>
BigShape(p, f, nc) == [e |-> (p + f) % 3 = 0, n |-> IF (p + f) % 2 = 0 THEN nc ELSE 0]
BigDoc(t) == [p \in 1..t[1] |-> [f \in 1..t[2] |-> BigShape(p, f, t[3])]]
\* one dummy initial state per selected entry (so that TLC's workers share the large documents)
BigInit == rd \in {[RInit(FALSE) EXCEPT !.curkey = i] : i \in BigSel} /\ doc = <<>>
BigNext == doc = <<>> /\ doc' = BigDoc(BigTable[rd.curkey]) /\ UNCHANGED rd
BigSpec == BigInit /\ [][BigNext]_vars
BigLeads == {<<BlankLn>>, <<CommentLn, BlankLn>>, <<BlankLn, CommentLn>>}
BigArmor == [nh |-> 1, b |-> TRUE, sb |-> TRUE, sh |-> FALSE]
\* documents of more than 1000 lines: only the families marked (*)
BigInvariant ==
    doc # <<>> =>
    /\ LET r == Parse(D) IN r = P /\ r[1] = P[1]                                   \* (*) iter_paragraphs, Deb822(x)
    /\ Parse(AllComments(D)) = P                                                  \* (*)
    /\ Parse(<<CommentLn, BlankLn>> \o D) = P                                     \* (*)
    /\ Len(D) <= 1000 =>
         /\ \A i \in {0, Len(D) \div 2, Len(D)} : Parse(InsertAt(D, i, CommentLn)) = P
         /\ \A pre \in BigLeads : Parse(pre \o D) = P
         /\ Parse(D \o <<BlankLn, BlankLn>>) = P
         /\ Len(P) = 1 => /\ Parse(Armor(D, BigArmor)) = P
                          /\ GpgMvParse(Armor(D, BigArmor)) = P[1]
                          /\ GpgMvParse(D) = P[1]

\* fields=W keeps exactly the fields named in W, in order -- as long as every paragraph keeps one
\* (iteration stops at the first paragraph that is left empty: unspecified for C02)
FilterDoc(Q, W) == [p \in 1..Len(Q) |-> SelectSeq(Q[p], LAMBDA fl : fl.k \in W)]
FieldsInvariant == \A W \in SUBSET {1, 2, 3} :
                      (\A p \in 1..Len(P) : \E f \in 1..Len(P[p]) : P[p][f].k \in W) => ParseW(D, W) = FilterDoc(P, W)
\* a white-space-only line (>= 2 characters, token 888) put at position i: what the reader returns
\* under either value of the strictness flag
WsLnT == Ln("WsOnly", NoText, 888, FALSE)
WsAt(i, ws)  == ParseS(InsertAt(D, i - 1, WsLnT), ws)
WsGAt(i, ws) == GpgMvParseS(InsertAt(D, i - 1, WsLnT), ws)
WsRec(ws) == [at |-> [i \in 1..(Len(D) + 1) |-> WsAt(i, ws)],
              gat |-> IF Len(doc) = 1 THEN [i \in 1..(Len(D) + 1) |-> WsGAt(i, ws)] ELSE <<>>]   \* Dsc / Changes pre-pass
EmitWs == (Emit /\ NFields(doc) <= 3) =>
             PrintT(<<"WSAT", ToJson([shape |-> doc, np |-> Len(doc), ws |-> WsRec(TRUE), nows |-> WsRec(FALSE)])>>)

\* one CASE line per document: the shape, dump(P) and what the reader must return for it
EmitCase == Emit => PrintT(<<"CASE", ToJson([shape |-> doc, doc |-> P, lines |-> D, parse |-> Parse(D),
                                             np |-> Len(doc)])>>)
=============================================================================
