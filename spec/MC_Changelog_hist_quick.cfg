\* C04 / C15 quick: formatting as part of the history -- <= 3 calls (Fmt of the changelog or of one
\* block, attribute assignment / in-place container edits on ANY block, new_block, add_change) on
\* every two-block changelog parsed from a well-formed text of <= 5 lines
CONSTANTS
  Mode = "hist"
  Classes = {}
  AEAs = {FALSE}
  MaxLines = 5
  MaxBlocks = 2
  MaxBody = 1
  MaxLead = 0
  MaxSep = 1
  Budget = 0
  MaxEdits = 3
  Bug = "none"
  Emit = TRUE
SPECIFICATION Spec
INVARIANT BookkeepingOK
INVARIANT HistFormattable
INVARIANT FormatIsCurrent
INVARIANT ExposedAsWritten
INVARIANT NormalFormHist
INVARIANT EmitHist
CHECK_DEADLOCK FALSE
