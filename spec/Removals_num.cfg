CONSTANTS
  Leads = {}
  Gaps = {}
  Trails = {}
  MaxArch = 0
  MaxEdits = 0
  MaxLen = 0
  EditClasses = {}
  MaxNum = 5
  SplitComma = FALSE
  SrcNeedsWs = FALSE
  EmptyRaises = FALSE
  Emit = TRUE
SPECIFICATION NSpec
INVARIANT TypeOK
INVARIANT NumRefines
INVARIANT EmitNum
CHECK_DEADLOCK FALSE
