\* C12 -- thorough tier: PdiffIndex, every one of the 2^14 subsets x 2 uniform shapes, all invariants (closed); every subset is printed with one shape; props/c12.py sets EmitOff
CONSTANTS
  Tables <- DocTables
  Modes <- ModesThoroughP
  IterateAllFields = FALSE
  SplitEverySpace = FALSE
  CacheWidths = FALSE
  SharedEqualRecords = FALSE
  ClassLevelOption = FALSE
  StoreBeforeValidate = FALSE
  ReorderStoresPlainKeys = FALSE
  RefusedUnlinksFirst = FALSE
  Emit = TRUE
  EmitOff = 0
SPECIFICATION Spec
INVARIANT TypeOK
INVARIANT DumpTotal
INVARIANT KeysFold
INVARIANT KeysListed
INVARIANT WidthTable
INVARIANT DumpExplains
INVARIANT RecordsRoundTrip
INVARIANT SubFieldNames
INVARIANT WidthRule
INVARIANT RightAligned
INVARIANT SingleBlanks
PROPERTY LoadIsIdentity
PROPERTY EditIsLocal
PROPERTY OtherIsOther
PROPERTY RefusedIsAtomic
CHECK_DEADLOCK FALSE
