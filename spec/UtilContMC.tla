----------------------------- MODULE UtilContMC -----------------------------
(***************************************************************************)
(* X15 -- closed model-checking configurations of UtilCont.tla with the    *)
(* implementation layer UtilContImpl.tla running in lock step.             *)
(*                                                                         *)
(* Which = "list"  NLists LinkedLists, a pool of NNodes nodes (node ids    *)
(*                 are re-used after the caller dropped a detached node),  *)
(*                 one iterator slot, values from Values; every public     *)
(*                 call of LinkedListNode / LinkedList that is in the      *)
(*                 domain of the statement, from every reachable state     *)
(*         "oset"  NSets OrderedSets over NNames lower-case classes:       *)
(*                 _CaseInsensitiveString in the spellings Spells, the     *)
(*                 plain lower-case str and one unhashable item            *)
(*         "str"   the string algebra: every pair of the 3 spellings x     *)
(*                 {_CaseInsensitiveString, str} x NNames names, sorted()  *)
(*                 of every sequence of <= MaxSeq + 1 of them              *)
(* Emit = TRUE prints one EDGE line per evaluated call with the outcome of *)
(* the statement (res, to, shape = everything observable on the objects)   *)
(* and the as-built result (kres).  WithImpl = TRUE runs ICall beside      *)
(* UCall: Refines, StructOK (invariants) and SameResult (action property). *)
(* Negative controls: FSole / FEmPick (as built) and Neg (see              *)
(* UtilContImpl) must each make TLC report a violation.                    *)
(***************************************************************************)
EXTENDS UtilContImpl

CONSTANTS Which, NNodes, NLists, NSets, NNames, Values, Spells, MaxSeq, Hows, ItKinds,
          FSole, FEmPick, Neg, Emit, WithImpl

VARIABLES ust,      \* the reference state
          uim,      \* the implementation structures
          ures,     \* result of the last call (reference)      -- output, not in the VIEW
          uires,    \* result of the last call (implementation) -- output, not in the VIEW
          ucall     \* the last call                            -- output, not in the VIEW

uvars == <<ust, uim, ures, uires, ucall>>
CfgFlags == Flags(FSole, FEmPick)
NodeIds  == 1..NNodes

B == NoCall
Free     == NodeIds \ Live(ust)
Fr(n)    == IF n > 0 /\ Cardinality(Free) >= n THEN SubSeq(SetToSortSeq(Free, LAMBDA u, w : u < w), 1, n) ELSE <<>>
ValSeqs  == UNION {[1..n -> Values] : n \in 0..MaxSeq}
LiveN    == Live(ust)
LL       == 1..NLists

ListCalls ==
    {[B EXCEPT !.op = "node", !.v = v, !.f = Fr(1)] : v \in Values}
    \cup {[B EXCEPT !.op = op, !.x = x] : op \in {"drop", "nvalue", "nprev", "nnext", "nremove"}, x \in LiveN}
    \cup {[B EXCEPT !.op = "nsetvalue", !.x = x, !.v = v] : x \in LiveN, v \in Values}
    \cup {[B EXCEPT !.op = "nwalk", !.x = x, !.k = k] : x \in LiveN, k \in {"n", "ns", "p", "ps"}}
    \cup {[B EXCEPT !.op = "nlink", !.x = x, !.y = y] : x \in LiveN \cup {0}, y \in LiveN \cup {0}}
    \cup {[B EXCEPT !.op = op, !.x = x, !.y = y] : op \in {"ninsbefore", "ninsafter"}, x \in LiveN, y \in LiveN}
    \cup {[B EXCEPT !.op = op, !.l = l] : op \in {"lbool", "llen", "lhead", "ltailnode", "ltail", "lnodes", "lvalues", "lrev",
                                                  "lgetstate", "lpop", "lclear"}, l \in LL}
    \cup {[B EXCEPT !.op = "lremove", !.l = l, !.x = x] : l \in LL, x \in LiveN}
    \cup {[B EXCEPT !.op = op, !.l = l, !.v = v, !.f = Fr(1)] : op \in {"lappend", "lathead"}, l \in LL, v \in Values}
    \cup {[B EXCEPT !.op = op, !.l = l, !.v = v, !.x = x, !.f = Fr(1)] : op \in {"linsbefore", "linsafter"}, l \in LL, v \in Values, x \in LiveN}
    \cup {[B EXCEPT !.op = op, !.l = l, !.y = y, !.x = x] : op \in {"linsnodebefore", "linsnodeafter"}, l \in LL, y \in LiveN, x \in LiveN}
    \cup {[B EXCEPT !.op = "lextend", !.l = l, !.vs = vs, !.k = k, !.f = Fr(Len(vs))] : l \in LL, vs \in ValSeqs, k \in {"", "boom"}}
    \cup {[B EXCEPT !.op = op, !.l = l, !.vs = vs, !.f = Fr(Len(vs))] : op \in {"lnew", "lsetstate"}, l \in LL, vs \in ValSeqs}
    \cup {[B EXCEPT !.op = "lnew", !.l = l, !.vs = vs, !.k = "boom", !.f = Fr(Len(vs))] : l \in LL, vs \in ValSeqs}
    \cup {[B EXCEPT !.op = "lcopy", !.l = l, !.m = m, !.k = k, !.f = Fr(Len(ust.lst[l]))] : l \in LL, m \in LL, k \in Hows}
    \cup {[B EXCEPT !.op = "itopen", !.i = 1, !.k = k, !.l = l] : k \in ItKinds \cap {"ln", "lv", "lr"}, l \in LL}
    \cup {[B EXCEPT !.op = "itopen", !.i = 1, !.k = k, !.x = x] : k \in ItKinds \cap {"nn", "nns", "np", "nps"}, x \in LiveN}
    \cup {[B EXCEPT !.op = "itnext", !.i = 1]}

Item(n, s, k) == [n |-> n, s |-> s, k |-> k]
Unhash    == Item(1, "C", "U")
Flaky     == {Item(1, "B1", "U"), Item(1, "B2", "U")}       \* keys whose __hash__ raises at its first / second call
SetItems  == {Item(n, s, "I") : n \in 1..NNames, s \in Spells} \cup {Item(n, "L", "P") : n \in 1..NNames} \cup {Unhash} \cup Flaky
\* item sequences for the constructor / extend / __setstate__: one spelling per class, one plain lower-case str, the unhashable item
SeqItems  == {Item(n, CHOOSE s \in Spells : TRUE, "I") : n \in 1..NNames} \cup {Item(1, "L", "P"), Unhash, Item(1, "B2", "U")}
ItemSeqs  == UNION {[1..n -> SeqItems] : n \in 0..MaxSeq}
SS        == 1..NSets
SetCalls ==
    {[B EXCEPT !.op = op, !.l = s] : op \in {"olen", "oiter", "orev", "ogetstate"}, s \in SS}
    \cup {[B EXCEPT !.op = op, !.l = s, !.a = a] : op \in {"oadd", "oappend", "oremove", "ohas", "ofirst", "olast"}, s \in SS, a \in SetItems}
    \cup {[B EXCEPT !.op = op, !.l = s, !.a = a, !.b = b] : op \in {"obefore", "oafter"}, s \in SS, a \in SetItems, b \in SetItems}
    \cup {[B EXCEPT !.op = op, !.l = s, !.as = q] : op \in {"onew", "oextend", "osetstate"}, s \in SS, q \in ItemSeqs}
    \cup {[B EXCEPT !.op = op, !.l = s, !.as = q, !.k = "boom"] : op \in {"onew", "oextend"}, s \in SS, q \in ItemSeqs}
    \cup {[B EXCEPT !.op = "ocopy", !.l = s, !.k = k] : s \in SS, k \in Hows}

StrItems  == {Item(n, s, k) : n \in 1..NNames, s \in {"C", "L", "U"}, k \in {"I", "P"}}
StrSeqs   == UNION {[1..n -> StrItems] : n \in 0..(MaxSeq + 1)}
StrCalls ==
    {[B EXCEPT !.op = op, !.a = a, !.b = b] : op \in {"seq", "sne", "shash", "dget", "dkeep"}, a \in StrItems, b \in StrItems}
    \cup {[B EXCEPT !.op = op, !.a = a] : op \in {"slower", "skey", "sstr"}, a \in StrItems}
    \cup {[B EXCEPT !.op = "spickle", !.a = a, !.k = k] : a \in {z \in StrItems : z.k = "I"}, k \in Hows}
    \cup {[B EXCEPT !.op = "sorted", !.as = q] : q \in StrSeqs}

Calls == CASE Which = "list" -> ListCalls [] Which = "oset" -> SetCalls [] Which = "str" -> StrCalls

\* emission: one STATE line per distinct state (an "invariant"), one EDGE line per evaluated call; `to` and `kres`
\* are 0 when they repeat `from` / `res`; alt = 1: the call may also have left the state unchanged (a failed extend)
Edge(c, o) == Emit => LET k == UCall(ust, BuiltFlags, c).r IN
                      PrintT(<<"EDGE", ToJson([from |-> ust, call |-> c, res |-> o.r,
                                               to |-> IF o.st = ust THEN 0 ELSE o.st,
                                               alt |-> IF c.op \in Piecewise /\ o.r.t = "err" THEN 1 ELSE 0,
                                               kres |-> IF REq(k, o.r) THEN 0 ELSE k])>>)
EmitState  == Emit => PrintT(<<"STATE", ToJson([st |-> ust, shape |-> Shape(ust)])>>)

Do(c) == LET o == UCall(ust, CfgFlags, c) IN
         /\ ust' = o.st /\ ures' = o.r /\ ucall' = c
         /\ IF WithImpl THEN LET io == ICall(uim, ust.its, CfgFlags, c) IN uim' = io.im /\ uires' = io.r
            ELSE uim' = uim /\ uires' = o.r
         /\ Edge(c, o)

UInit == /\ ust = EmptyState(IF Which = "list" THEN NLists ELSE 0, IF Which = "oset" THEN NSets ELSE 0,
                             IF Which = "str" THEN 0 ELSE NNodes, IF Which = "list" THEN 1 ELSE 0)
         /\ uim = [EmptyImpl(IF Which = "list" THEN NLists ELSE 0, IF Which = "oset" THEN NSets ELSE 0,
                             IF Which = "str" THEN 0 ELSE NNodes, NNames) EXCEPT !.neg = Neg]
         /\ ures = ROk /\ uires = ROk /\ ucall = NoCall
UNext == \E c \in Calls : InDomain(ust, c) /\ Do(c)
USpec == UInit /\ [][UNext]_uvars
UView == <<ust, uim>>

----------------------------------------------------------------------------
\* ---- invariants
WellFormed == StateOK(ust)
Refines    == WithImpl => RefinesSt(uim, ust)
Structure  == WithImpl => StructOK(uim)

\* ---- action properties (ucall' ures' are outputs)
SameResult   == [][WithImpl => REq(uires', ures')]_uvars
\* a refused call changes nothing (extend keeps the items delivered before the iterable raised)
ErrAtomic    == [][(ures'.t = "err" /\ ucall'.op \notin Piecewise) => ust' = ust]_uvars
ImplErrAtomic == [][(WithImpl /\ uires'.t = "err" /\ ucall'.op \notin Piecewise) => uim' = uim]_uvars
QueriesPure  == [][ucall'.op \in Queries => ust' = ust]_uvars
\* nodes appear only as the fresh nodes of the call and disappear only when the caller drops them
Gone(st, c) == IF c.op = "drop" THEN {c.x}
               ELSE IF c.op \in {"lclear", "lsetstate"} THEN ToSet(st.lst[c.l]) ELSE {}
NodesConserved == [][Live(ust') = (Live(ust) \cup ToSet(ucall'.f)) \ Gone(ust, ucall')
                     \/ ures'.t = "err"]_uvars
\* a node taken out of its chain is detached
DetachedReally == [][(ures'.t # "err" /\ ucall'.op \in {"lremove", "nremove"}) => Detached(ust', ucall'.x)]_uvars
PopDetaches  == [][(ures'.t # "err" /\ ucall'.op = "lpop") => Detached(ust', Last0(ust.lst[ucall'.l]))]_uvars
\* a call on list l leaves every other list alone
Frame        == [][\A m \in Lists(ust) : (ucall'.l # m /\ ucall'.m # m /\ ucall'.op # "-") => ust'.lst[m] = ust.lst[m]]_uvars
\* copies are equal and independent
CopyEqual    == [][(ucall'.op = "lcopy") =>
                   /\ ures'.t = "ok"
                   /\ ValsOf(ust', ust'.lst[ucall'.m]) = ValsOf(ust, ust.lst[ucall'.l])
                   /\ ToSet(ust'.lst[ucall'.m]) \cap Live(ust) = {}
                   /\ ust'.lst[ucall'.l] = ust.lst[ucall'.l]]_uvars
SetCopyEqual == [][(ucall'.op = "ocopy") => (ures'.t = "items" /\ ures'.x = ust.os[ucall'.l] /\ ust' = ust)]_uvars
\* an iteration step yields the neighbour of the node yielded last
CursorLaw    == [][(ucall'.op = "itnext" /\ ures'.t # "stop") =>
                   LET it == ust.its[1] s == ChainOf(ust, it.cur) IN
                   ust'.its[1].cur = (IF Fwd(it.k) THEN NextIn(s, it.cur) ELSE PrevIn(s, it.cur))]_uvars
\* ordered sets: a successful add / remove / re-ordering keeps every other item in its relative order
Others(q, a) == SelectSeq(q, LAMBDA it : ~Match(it, a))
SetFrame     == [][(ucall'.op \in {"oadd", "oappend", "oremove", "ofirst", "olast", "obefore", "oafter"} /\ ures'.t # "err") =>
                   Others(ust'.os[ucall'.l], ucall'.a) = Others(ust.os[ucall'.l], ucall'.a)]_uvars
\* the string algebra: laws over the universe (evaluated once)
StrLaws == \A a, b \in StrItems :
              /\ SEq(a, a) /\ (SEq(a, b) <=> SEq(b, a))
              /\ (a.k = "I" /\ b.k = "I" /\ SEq(a, b)) => HashC(a) = HashC(b)
              /\ (a.k = "I" /\ b.k = "P" /\ b.s = "L" /\ a.n = b.n) => Match(a, b)
              /\ Match(a, b) => SEq(a, b)
              /\ SLower(SLower(a)) = SLower(a)
              /\ SEq(a, b) => SLower(a) = SLower(b)
ASSUME Which = "str" => StrLaws
=============================================================================
