---------------------------- MODULE TraceX05G ----------------------------
(***************************************************************************)
(* X05 (b) -- trace validation: executions recorded from the real          *)
(* debian.deb822.GpgInfo (harness/props/x05.py) are checked against        *)
(* GpgStatus.  A trace is a sequence of events; lines are token sequences  *)
(* made by the harness' tokenizer from the concrete status output (str,    *)
(* list, bytes through a gpgv stand-in or the real gpgv), observed         *)
(* mappings are projected with the same tokenizer:                         *)
(*                                                                         *)
(*  [op |-> "call", id, lines, map, valid, known]                          *)
(*       object id := from_output / from_sequence of `lines`;  map = the   *)
(*       observed entries <<[key, val]>>, valid = valid().  When the       *)
(*       statement decides every line, map must be RefMap(lines) and valid *)
(*       RefValid(lines).  known = TRUE: the harness claims the recorded   *)
(*       result diverges exactly as the known finding (argless keyword)    *)
(*       predicts -- TLC checks the claim against ImplMap(lines, TRUE).    *)
(*  [op |-> "recheck", id, map, valid]                                     *)
(*       an EARLIER object is observed again after other calls and after   *)
(*       mutations of other objects' values: nothing may have changed.     *)
(*  [op |-> "mutate", id]   the caller changed a value list of object id   *)
(*       (from then on the object is unspecified).                         *)
(*                                                                         *)
(* <<"DRIFT", tid, l>>: an undecided input whose result differs from the   *)
(* implementation layer's prediction (diagnostic only).                    *)
(***************************************************************************)
EXTENDS GpgStatus, IOUtils, TLCExt

Traces == JsonDeserialize(IOEnv.TRACE_FILE)
Diag   == IOEnv.TRACE_DIAG = "1"

VARIABLES tid, l,
          seen       \* id -> [map, valid, dirty]: what every live object must still show
tvars == <<gvars, tid, l, seen>>

Tr == Traces[tid]
Ev == Tr[l]

ObsEntries(q) == {[key |-> q[k].key, val |-> q[k].val] : k \in 1..Len(q)}
SameMap(obs, m) == ObsEntries(obs) = MapEntries(m) /\ Len(obs) = Cardinality(DOMAIN m)

TInit == /\ tid \in 1..Len(Traces)
         /\ l = 1
         /\ seen = [x \in {} |-> <<>>]
         /\ Init

TCall == /\ Ev.op = "call"
         /\ LET ls == Ev.lines
                im == ImplMap(ls, TRUE)
                rm == StmtFold(ls)           \* = RefMap(ls): GpgStatus!StmtFoldIsRefMap
            IN /\ IF Ev.known
                  THEN /\ GDecided(ls) /\ \E k \in 1..Len(ls) : Argless(ls[k])
                       /\ im # rm
                       /\ SameMap(Ev.map, im) /\ Ev.valid = ImplValid(im)
                  ELSE IF GDecided(ls)
                       THEN SameMap(Ev.map, rm) /\ Ev.valid = (GoodSig \in DOMAIN rm \/ ValidSig \in DOMAIN rm)
                       ELSE (~SameMap(Ev.map, im) \/ Ev.valid # ImplValid(im)) => PrintT(<<"DRIFT", tid, l>>)
               /\ seen' = [x \in DOMAIN seen \cup {Ev.id} |->
                             IF x = Ev.id THEN [map |-> ObsEntries(Ev.map), valid |-> Ev.valid, dirty |-> FALSE]
                             ELSE seen[x]]
TRecheck == /\ Ev.op = "recheck"
            /\ Ev.id \in DOMAIN seen
            /\ ~seen[Ev.id].dirty => (ObsEntries(Ev.map) = seen[Ev.id].map /\ Ev.valid = seen[Ev.id].valid)
            /\ seen' = seen
TMutate == /\ Ev.op = "mutate"
           /\ Ev.id \in DOMAIN seen
           /\ seen' = [seen EXCEPT ![Ev.id].dirty = TRUE]

TStep == /\ l <= Len(Tr)
         /\ (TCall \/ TRecheck \/ TMutate)
         /\ UNCHANGED gvars
         /\ l' = l + 1 /\ UNCHANGED tid
         /\ (Diag => PrintT(<<"AT", tid, l>>))
         /\ (l' = Len(Tr) + 1 => PrintT(<<"ACCEPTED", tid>>))

TSpec == TInit /\ [][TStep]_tvars
=============================================================================
