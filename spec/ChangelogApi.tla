---------------------------- MODULE ChangelogApi ----------------------------
(***************************************************************************)
(* X14 (extra), part (b) -- the mutation and access API of                 *)
(* debian.changelog.Changelog / ChangeBlock beyond parsing fidelity.       *)
(*                                                                         *)
(* STATEMENT.  A Changelog is a list of blocks, newest first.              *)
(* new_block(...) puts a new block ON TOP and changes no other block; each *)
(* keyword that is given becomes the attribute of that name, an omitted    *)
(* (or None) one gives None -- except urgency ("unknown"), urgency_comment *)
(* (""), changes ([]), other_pairs ({}) and encoding (the changelog's      *)
(* own) -- and the block gets one empty trailing line.  set_package /      *)
(* set_distributions / set_urgency / set_author / set_date / set_version   *)
(* and the properties of the same names change exactly that attribute of   *)
(* the TOP block (set_version: to str(Version(v)); a string that is no     *)
(* Debian version raises ValueError and changes nothing); the properties   *)
(* package, distributions, urgency, author, date, version / get_version(), *)
(* full_version, epoch, debian_version = debian_revision, upstream_version *)
(* read the top block (the version-derived ones are the parts of its       *)
(* version string; None where the part is absent).  add_change(c) inserts  *)
(* c after the last change line of the top block that is not blank (at the *)
(* end when there is none), keeping every other line.  len() is the number *)
(* of blocks, iteration yields the blocks top to bottom, versions /         *)
(* get_versions() their versions in that order, cl[i] the block at Python  *)
(* index i (IndexError outside -n..n-1), cl[v] for a version string or     *)
(* Version the FIRST block whose version equals v as a Debian version      *)
(* (whatever the spelling: "1.0-1" finds "0:1.0-1"), an error when there   *)
(* is none; blocks are handed out by reference.  str(block) is             *)
(*   package (version) distributions; urgency=URGENCY COMMENT{, key=value} *)
(*   the change lines                                                      *)
(*    -- author  date                                                      *)
(*   the trailing lines                                                    *)
(* and raises ChangelogCreateError when package, version, distributions,   *)
(* author or date is None; str(changelog) is the concatenation of the      *)
(* blocks (an error when any block has one); bytes() is that text in the   *)
(* block's / changelog's encoding; write_to_open_file writes it.           *)
(* other_keys_normalised() maps every other_pairs key to its first         *)
(* character upper-cased + the rest lower-cased, prefixed with "XS-"       *)
(* unless that already starts with X, one or more of B / C / S, and "-"    *)
(* (any case); values unchanged, other_pairs untouched.  Every call on a   *)
(* changelog without blocks that addresses the top block raises and leaves *)
(* it empty.  Nothing but the addressed attribute of the addressed block   *)
(* of the addressed Changelog ever changes.                                *)
(* Domain: str arguments (valid or clearly invalid versions; ASCII keys    *)
(* [-0-9A-Za-z]+ that differ as lower case; a "blank" change line is empty *)
(* or made of blanks / tabs); lists / dicts handed to new_block are not    *)
(* touched by the caller afterwards; version-derived properties while the  *)
(* top block has no version, and None passed to a setter, are unspecified. *)
(*                                                                         *)
(* MODEL.  Payloads are opaque ids ("None", "" and "unknown" stand for     *)
(* themselves).  A version is [s, e, u, r, c, ok]: the string, its epoch / *)
(* upstream / revision parts, its equality class under Debian version      *)
(* comparison, ok = FALSE for a string that is no version.  A change line  *)
(* is [s, b] (b: blank).  A key is [s, cls]: cls = its characters as       *)
(* classes X x (the letter x), B b (one of b c s), A a (another letter),   *)
(* 9, "-".  A block is [pk, vr, ds, ug, uc, kv, ch, au, da, tr, en].       *)
(* ONE pure operator per public call: ANew, ASet, ASetVersion, AAddChange  *)
(* (through AApply); QLen, QVersions, QIdx, QVer, QTop, QNorm, QRender,    *)
(* QWhole (queries).  A rendered line is a sequence of pieces: "$id" (the  *)
(* payload with that id) or "=text" (literal).                             *)
(*                                                                         *)
(* Modes: "hist"   every history of <= ADepth mutation calls from every    *)
(*                 initial changelog of AInits; CASE lines carry the       *)
(*                 results and the complete observation AObs of the end;   *)
(*        "closed" all states with <= AMaxBlocks blocks (VIEW: the top     *)
(*                 block + the versions below) for the invariants.         *)
(* ABug (spec-level negative controls):                                    *)
(*   "setAll"       a setter writes every block        -> OnlyTopChanges   *)
(*   "newAtBottom"  new_block appends                  -> NewBlockOnTop    *)
(*   "exactVersion" cl[v] compares the spelling        -> LookupByValue    *)
(*   "blankFirst"   add_change always appends          -> AddChangeIsRule  *)
(*   "dirtyError"   a refused version is stored        -> ErrAtomic        *)
(*   "capitalWords" normalisation keeps upper case     -> NormShape        *)
(***************************************************************************)
EXTENDS Naturals, Integers, Sequences, FiniteSets, SequencesExt, FiniteSetsExt, TLC, Json

CONSTANTS AMode, ADepth, AMaxBlocks, AMaxChanges, AEmit, ABug,
          ANewKinds,     \* names of the new_block variants explored
          AInits         \* names of the initial changelogs

VARIABLES ablks,   \* the blocks, newest first
          atick,   \* flips with every call (tells a call from stuttering)
          aenc,    \* the changelog's own encoding
          ainit,   \* name of the initial changelog (constant along a behaviour)
          ahist,   \* calls so far (hist mode)
          ares     \* results of the calls so far (hist mode) / last result (closed)

avars == <<ablks, atick, aenc, ainit, ahist, ares>>

None == "None"
Unknown == "unknown"
Empty == ""

----------------------------------------------------------------------------
\* payloads of the model-checking configurations
AV(s, e, u, r, c, ok) == [s |-> s, e |-> e, u |-> u, r |-> r, c |-> c, ok |-> ok]
V1   == AV("v1",  None, "u1", "r1", 1, TRUE)      \* e.g. 1.2-3
V1E  == AV("v1e", "e0", "u1", "r1", 1, TRUE)      \* 0:1.2-3: another spelling of the same version
V2   == AV("v2",  "e1", "u2", None, 2, TRUE)      \* 1:2.0 (no revision)
V3   == AV("v3",  None, "u3", "r3", 3, TRUE)      \* version of the parsed blocks
V3E  == AV("v3e", "e0", "u3", "r3", 3, TRUE)
V4   == AV("v4",  None, "u4", None, 4, TRUE)      \* in no block
VBad == AV("vbad", None, None, None, 0, FALSE)
VNone == AV(None, None, None, None, 0 - 1, TRUE)   \* "the block has no version" (block.version is None)
AProbes == <<V1, V1E, V2, V3, V3E, V4>>

AC(s, b) == [s |-> s, b |-> b]
C1 == AC("c1", FALSE)
C2 == AC("c2", FALSE)
C3 == AC("c3", FALSE)
B0 == AC("", TRUE)            \* the empty line
B1 == AC("b1", TRUE)          \* blanks / tabs

AK(s, cls) == [s |-> s, cls |-> cls]
K1 == AK("k1", <<"B", "a", "a", "-", "A", "a">>)          \* like Binary-Only / closes-Foo: gets the prefix
K2 == AK("k2", <<"x", "B", "b", "-", "A">>)               \* like xCs-F: an extension already
K3 == AK("k3", <<"X", "-", "a">>)                         \* X-a: no B/C/S, gets the prefix
K4 == AK("k4", <<"x", "b", "9", "-", "a">>)               \* xs9-a: no "-" after the letters
KV(k, v) == [k |-> k, v |-> v]

ABlock(pk, vr, ds, ug, uc, kv, ch, au, da, tr, en) ==
    [pk |-> pk, vr |-> vr, ds |-> ds, ug |-> ug, uc |-> uc, kv |-> kv, ch |-> ch, au |-> au, da |-> da, tr |-> tr, en |-> en]

\* new_block arguments: every keyword is given (g) with value x, or omitted / None
AG(x) == [g |-> TRUE, x |-> x]
AOm(x) == [g |-> FALSE, x |-> x]
AFull  == [pk |-> AG("pA"), vr |-> AG(V1), ds |-> AG("dA"), ug |-> AG("uA"), uc |-> AG("cA"), ch |-> AG(<<C1>>), au |-> AG("aA"),
           da |-> AG("tA"), kv |-> AG(<<KV(K1, "x1"), KV(K2, "x2")>>), en |-> AG("latin-1")]
ANone  == [pk |-> AOm(None), vr |-> AOm(VNone), ds |-> AOm(None), ug |-> AOm(None), uc |-> AOm(None), ch |-> AOm(<<>>),
           au |-> AOm(None), da |-> AOm(None), kv |-> AOm(<<>>), en |-> AOm(None)]
AKeys  == {"pk", "vr", "ds", "ug", "uc", "ch", "au", "da", "kv", "en"}
ANewArgs(kind) ==
    IF kind = "full" THEN AFull
    ELSE IF kind = "empty" THEN ANone
    ELSE IF kind = "keys34" THEN [AFull EXCEPT !.kv = AG(<<KV(K3, "x3"), KV(K4, "x4"), KV(K1, "x1")>>), !.ch = AG(<<B0, C1, B1>>)]
    ELSE LET f == CHOOSE k \in AKeys : kind = "no_" \o k \/ kind = "only_" \o k IN
         IF kind = "no_" \o f THEN [AFull EXCEPT ![f] = ANone[f]] ELSE [ANone EXCEPT ![f] = AFull[f]]
AAllNewKinds == {"full", "empty", "keys34"} \cup {"no_" \o k : k \in AKeys} \cup {"only_" \o k : k \in AKeys}

\* initial changelogs: Changelog() and a parsed text of two complete blocks
AParsed1 == ABlock("qA", V3, "qd", "qu", Empty, <<>>, <<B0, C3, B0>>, "qa", "qt", <<Empty>>, "utf-8")
AParsed2 == ABlock("qA", V1E, "qd", "qu", "qc", <<KV(K1, "x1")>>, <<B0, C3, C1, B0>>, "qa", "qt", <<>>, "utf-8")
AInitBlocks(name) == IF name = "empty" THEN <<>> ELSE IF name = "one" THEN <<AParsed2>> ELSE <<AParsed1, AParsed2>>

----------------------------------------------------------------------------
\* the mutation calls: -> [bs |-> blocks afterwards, r |-> "ok" | "err:index" | "err:value"]
AOut(bs, r) == [bs |-> bs, r |-> r]
ADflt(arg, d) == IF arg.g THEN arg.x ELSE d

ANew(bs, enc, a) ==
    LET b == ABlock(ADflt(a.pk, None), ADflt(a.vr, VNone), ADflt(a.ds, None), ADflt(a.ug, Unknown), ADflt(a.uc, Empty),
                    ADflt(a.kv, <<>>), ADflt(a.ch, <<>>), ADflt(a.au, None), ADflt(a.da, None), <<Empty>>, ADflt(a.en, enc))
    IN AOut(IF ABug = "newAtBottom" THEN Append(bs, b) ELSE <<b>> \o bs, "ok")

\* field f of the top block := v   (f: pk ds ug au da)
ASet(bs, f, v) ==
    IF bs = <<>> THEN AOut(bs, "err:index")
    ELSE IF ABug = "setAll" THEN AOut([i \in 1..Len(bs) |-> [bs[i] EXCEPT ![f] = v]], "ok")
    ELSE AOut([bs EXCEPT ![1][f] = v], "ok")

ASetVersion(bs, v) ==
    IF bs = <<>> THEN AOut(bs, IF v.ok THEN "err:index" ELSE "err:any")
    ELSE IF ~v.ok THEN AOut(IF ABug = "dirtyError" THEN [bs EXCEPT ![1].vr = v] ELSE bs, "err:value")
    ELSE AOut([bs EXCEPT ![1].vr = v], "ok")

\* add_change as the code words it: search the reversed list for the first line that is not blank
AAddOp(ch, c) ==
    IF ch = <<>> THEN <<c>>
    ELSE LET rev == Reverse(ch)
             nb  == {i \in 1..Len(rev) : ~rev[i].b}
         IN IF nb = {} \/ ABug = "blankFirst" THEN Append(ch, c)
            ELSE Reverse(InsertAt(rev, Min(nb), c))
\* ... and as the statement words it: right after the last line that is not blank
AAddRule(ch, c) ==
    LET nb == {i \in 1..Len(ch) : ~ch[i].b} IN
    IF nb = {} THEN Append(ch, c)
    ELSE SubSeq(ch, 1, Max(nb)) \o <<c>> \o SubSeq(ch, Max(nb) + 1, Len(ch))
AAddChange(bs, c) ==
    IF bs = <<>> THEN AOut(bs, "err:index")
    ELSE AOut([bs EXCEPT ![1].ch = AAddOp(@, c)], "ok")

\* a call: [op, f, sv (str), vv (version), cv (change line), a (new_block arguments), kind]
ACall(op, f, sv, vv, cv, a, kind) == [op |-> op, f |-> f, sv |-> sv, vv |-> vv, cv |-> cv, a |-> a, kind |-> kind]
AApply(bs, enc, c) ==
    CASE c.op = "new_block"   -> ANew(bs, enc, c.a)
      [] c.op = "set"         -> ASet(bs, c.f, c.sv)
      [] c.op = "set_version" -> ASetVersion(bs, c.vv)
      [] c.op = "add_change"  -> AAddChange(bs, c.cv)

----------------------------------------------------------------------------
\* the queries
QLen(bs) == Len(bs)
AVerStr(b) == b.vr.s
AHasVer(b) == b.vr # VNone
QVersions(bs) == [i \in 1..Len(bs) |-> AVerStr(bs[i])]
\* cl[i] for a Python index: position of the block (1-based), 0 = IndexError
QIdx(bs, i) == LET n == Len(bs) IN
               IF i >= 0 /\ i < n THEN i + 1 ELSE IF i < 0 /\ i >= 0 - n THEN n + i + 1 ELSE 0
\* cl[v]: the first block whose version equals v (Debian version comparison), 0 = lookup error
AVerEq(x, v) == IF ABug = "exactVersion" THEN x.s = v.s ELSE x.c = v.c
QVer(bs, v) == LET hit == {i \in 1..Len(bs) : AHasVer(bs[i]) /\ AVerEq(bs[i].vr, v)} IN
               IF hit = {} THEN 0 ELSE Min(hit)
ATopProps == <<"package", "distributions", "urgency", "author", "date", "version", "full_version", "epoch",
               "debian_version", "debian_revision", "upstream_version">>
QTop(bs, p) ==
    IF bs = <<>> THEN "err"
    ELSE LET b == bs[1] IN
         CASE p = "package" -> b.pk [] p = "distributions" -> b.ds [] p = "urgency" -> b.ug
           [] p = "author" -> b.au [] p = "date" -> b.da
           [] p = "version" -> AVerStr(b)
           [] OTHER -> IF ~AHasVer(b) THEN "unspec"
                       ELSE CASE p = "full_version" -> b.vr.s [] p = "epoch" -> b.vr.e
                              [] p = "upstream_version" -> b.vr.u
                              [] p \in {"debian_version", "debian_revision"} -> b.vr.r

\* other_keys_normalised: per key [pre |-> "XS-" is prefixed, cs |-> case of every character ("U" / "L")]
AUp(x)  == CASE x = "x" -> "X" [] x = "b" -> "B" [] x = "a" -> "A" [] OTHER -> x
ALow(x) == CASE x = "X" -> "x" [] x = "B" -> "b" [] x = "A" -> "a" [] OTHER -> x
ACap(cls) == [i \in 1..Len(cls) |-> IF i = 1 THEN AUp(cls[i])
                                    ELSE IF ABug = "capitalWords" /\ cls[i - 1] = "-" THEN AUp(cls[i]) ELSE ALow(cls[i])]
\* X, then one or more of B C S, then "-" (in any case)
AIsExt(cls) == /\ Len(cls) >= 3 /\ cls[1] \in {"X", "x"}
               /\ \E m \in 2..(Len(cls) - 1) : cls[m + 1] = "-" /\ \A j \in 2..m : cls[j] \in {"B", "b"}
ANormKey(cls) == LET cap == ACap(cls) IN
                 [pre |-> ~AIsExt(cap), cs |-> [i \in 1..Len(cap) |-> IF cap[i] \in {"X", "B", "A"} THEN "U" ELSE "L"]]
QNorm(b) == [i \in 1..Len(b.kv) |-> [k |-> b.kv[i].k.s, c |-> b.kv[i].k.cls, n |-> ANormKey(b.kv[i].k.cls), v |-> b.kv[i].v]]

\* rendering
AT(id) == "$" \o id
AL(s)  == "=" \o s
AMissing(b) == IF b.pk = None THEN "package" ELSE IF ~AHasVer(b) THEN "version" ELSE IF b.ds = None THEN "distributions"
               ELSE IF b.ug = None THEN "urgency" ELSE IF b.au = None THEN "author" ELSE IF b.da = None THEN "date" ELSE "-"
AHeader(b) == <<AT(b.pk), AL(" ("), AT(b.vr.s), AL(") "), AT(b.ds), AL("; urgency="), AT(b.ug), AT(b.uc)>>
              \o FoldLeft(LAMBDA acc, p : acc \o <<AL(", "), AT(p.k.s), AL("="), AT(p.v)>>, <<>>, b.kv)
ALines(b) == <<AHeader(b)>> \o [i \in 1..Len(b.ch) |-> <<AT(b.ch[i].s)>>]
             \o <<<<AL(" -- "), AT(b.au), AL("  "), AT(b.da)>>>> \o [i \in 1..Len(b.tr) |-> <<AT(b.tr[i])>>]
QRender(b) == IF AMissing(b) # "-" THEN [ok |-> FALSE, miss |-> AMissing(b), lines |-> <<>>]
              ELSE [ok |-> TRUE, miss |-> "-", lines |-> ALines(b)]
QWhole(bs) == LET bad == {i \in 1..Len(bs) : AMissing(bs[i]) # "-"} IN
              IF bad # {} THEN [ok |-> FALSE, miss |-> AMissing(bs[Min(bad)]), lines |-> <<>>]
              ELSE [ok |-> TRUE, miss |-> "-", lines |-> FoldLeft(LAMBDA acc, b : acc \o ALines(b), <<>>, bs)]

\* the public attributes of a block (what the harness reads back after every call)
AKvIds(b) == [i \in 1..Len(b.kv) |-> <<b.kv[i].k.s, b.kv[i].v>>]
AChIds(b) == [i \in 1..Len(b.ch) |-> b.ch[i].s]
AProj(b)  == [pk |-> b.pk, vr |-> AVerStr(b), ds |-> b.ds, ug |-> b.ug, uc |-> b.uc, kv |-> AKvIds(b), ch |-> AChIds(b),
              au |-> b.au, da |-> b.da]
AProjAll(bs) == [i \in 1..Len(bs) |-> AProj(bs[i])]

\* the complete observation of a changelog (hist mode: compared by the harness after the last call)
AObs(bs, enc, full) ==
    [n    |-> QLen(bs),
     vs   |-> QVersions(bs),
     top  |-> [i \in 1..Len(ATopProps) |-> <<ATopProps[i], QTop(bs, ATopProps[i])>>],
     gi   |-> [j \in 1..(2 * Len(bs) + 2) |-> <<j - Len(bs) - 2, QIdx(bs, j - Len(bs) - 2)>>],
     gv   |-> [j \in 1..Len(AProbes) |-> <<AProbes[j].s, QVer(bs, AProbes[j])>>],
     bl   |-> [i \in 1..Len(bs) |-> [f |-> AProj(bs[i]), nk |-> QNorm(bs[i]), en |-> bs[i].en,
                                     rd |-> IF full \/ i = 1 THEN QRender(bs[i]) ELSE [ok |-> TRUE, miss |-> "memo", lines |-> <<>>]]],
     whole |-> [ok |-> QWhole(bs).ok, miss |-> QWhole(bs).miss],
     enc  |-> enc]

----------------------------------------------------------------------------
\* behaviours
ASetTok == [pk |-> "pB", ds |-> "dB", ug |-> "uB", au |-> "aB", da |-> "tB"]
ACalls == {ACall("new_block", "", "", VNone, B0, ANewArgs(k), k) : k \in ANewKinds}
          \cup {ACall("set", f, ASetTok[f], VNone, B0, ANone, "") : f \in {"pk", "ds", "ug", "au", "da"}}
          \cup {ACall("set_version", "", "", v, B0, ANone, "") : v \in {V1E, V2, VBad}}
          \cup {ACall("add_change", "", "", VNone, c, ANone, "") : c \in {C2, B0, B1}}

AEnabled(bs, c) == /\ (c.op = "new_block" => Len(bs) < AMaxBlocks)
                   /\ (c.op = "add_change" /\ bs # <<>> => Len(bs[1].ch) < AMaxChanges)
                   /\ (c.op = "set_version" /\ ~c.vv.ok => bs # <<>>)     \* (domain)

AInit == /\ ainit \in AInits /\ ablks = AInitBlocks(ainit)
         /\ aenc \in (IF ainit = "empty" THEN {"utf-8", "latin-1"} ELSE {"utf-8"})
         /\ ahist = <<>> /\ ares = <<>> /\ atick = 0

ADo(c) == /\ AEnabled(ablks, c)
          /\ (AMode = "hist" => Len(ahist) < ADepth)
          /\ LET o == AApply(ablks, aenc, c) IN
             /\ ablks' = o.bs
             /\ IF AMode = "hist" THEN ahist' = Append(ahist, c) /\ ares' = Append(ares, o.r)
                ELSE ahist' = <<c>> /\ ares' = <<o.r>>
          /\ atick' = 1 - atick
          /\ UNCHANGED <<aenc, ainit>>

ANext == \E c \in ACalls : ADo(c)
ASpec == AInit /\ [][ANext]_avars

\* closed mode: the blocks below the top are frozen context (no call touches them: OnlyTopChanges), so the
\* VIEW keeps their versions only
AView == IF AMode = "hist" THEN <<ablks, aenc, ainit, ahist, ares>>
         ELSE <<IF ablks = <<>> THEN <<>> ELSE <<ablks[1]>>, QVersions(ablks), aenc>>

----------------------------------------------------------------------------
\* properties
ALast == ahist[Len(ahist)]
ALastR == ares[Len(ares)]

ATypeOK == /\ Len(ablks) <= AMaxBlocks + 2
           /\ \A i \in 1..Len(ablks) : ablks[i].ug # None /\ ablks[i].uc # None /\ ablks[i].en # None

\* new_block: one block more, ON TOP, the others unchanged below it, defaults as documented
NewBlockOnTop == [][(atick' # atick /\ ahist'[Len(ahist')].op = "new_block") =>
                       /\ Len(ablks') = Len(ablks) + 1
                       /\ SubSeq(ablks', 2, Len(ablks')) = ablks
                       /\ LET b == ablks'[1]  a == ahist'[Len(ahist')].a IN
                          /\ b.tr = <<Empty>>
                          /\ (~a.ug.g => b.ug = Unknown) /\ (~a.uc.g => b.uc = Empty)
                          /\ (~a.ch.g => b.ch = <<>>) /\ (~a.kv.g => b.kv = <<>>)
                          /\ (~a.en.g => b.en = aenc)
                          /\ \A f \in {"pk", "ds", "au", "da"} : b[f] = (IF a[f].g THEN a[f].x ELSE None)
                          /\ b.vr = (IF a.vr.g THEN a.vr.x ELSE VNone)
                          /\ \A f \in {"ug", "uc", "en"} : a[f].g => b[f] = a[f].x
                          /\ (a.ch.g => b.ch = a.ch.x) /\ (a.kv.g => b.kv = a.kv.x)]_avars
\* every other call keeps the number of blocks and everything below the top; a setter changes its attribute only
OnlyTopChanges == [][(atick' # atick /\ ahist'[Len(ahist')].op # "new_block") =>
                       /\ Len(ablks') = Len(ablks)
                       /\ \A i \in 2..Len(ablks) : ablks'[i] = ablks[i]
                       /\ LET c == ahist'[Len(ahist')] IN
                          ablks # <<>> =>
                             \A f \in DOMAIN ablks[1] :
                                 (~(c.op = "set" /\ f = c.f) /\ ~(c.op = "set_version" /\ f = "vr") /\ ~(c.op = "add_change" /\ f = "ch"))
                                     => ablks'[1][f] = ablks[1][f]]_avars
\* what was set is what is read
ReadBack == [][(atick' # atick /\ ares'[Len(ares')] = "ok") =>
                 LET c == ahist'[Len(ahist')] IN
                 /\ (c.op = "set" => QTop(ablks', CASE c.f = "pk" -> "package" [] c.f = "ds" -> "distributions"
                                                   [] c.f = "ug" -> "urgency" [] c.f = "au" -> "author" [] c.f = "da" -> "date") = c.sv)
                 /\ (c.op = "set_version" => /\ QTop(ablks', "version") = c.vv.s /\ QTop(ablks', "full_version") = c.vv.s
                                             /\ QTop(ablks', "epoch") = c.vv.e /\ QTop(ablks', "upstream_version") = c.vv.u
                                             /\ QTop(ablks', "debian_version") = c.vv.r /\ QTop(ablks', "debian_revision") = c.vv.r
                                             /\ QVersions(ablks')[1] = c.vv.s /\ QVer(ablks', c.vv) = 1)]_avars
\* a refused call changes nothing
ErrAtomic == [][(atick' # atick /\ ares'[Len(ares')] # "ok") => ablks' = ablks]_avars
EmptyRaises == [][(atick' # atick /\ ablks = <<>> /\ ahist'[Len(ahist')].op # "new_block") =>
                     (ares'[Len(ares')] # "ok" /\ ablks' = <<>>)]_avars
\* cl[i] / cl[v]
IndexLaws == LET n == Len(ablks) IN
             /\ \A i \in 0..(n - 1) : QIdx(ablks, i) = i + 1 /\ QIdx(ablks, i - n) = i + 1
             /\ QIdx(ablks, n) = 0 /\ QIdx(ablks, 0 - n - 1) = 0
LookupByValue == \A j \in 1..Len(AProbes) :
                    LET v == AProbes[j]  p == QVer(ablks, v) IN
                    /\ (p # 0 => ablks[p].vr.c = v.c /\ \A i \in 1..(p - 1) : ablks[i].vr.c # v.c)
                    /\ (p = 0 => \A i \in 1..Len(ablks) : ablks[i].vr.c # v.c)
VersionsMatchBlocks == /\ Len(QVersions(ablks)) = QLen(ablks)
                       /\ (ablks # <<>> => QVersions(ablks)[1] = QTop(ablks, "version"))
\* add_change: the code's search is the rule of the statement; the line is added once, the others keep their order
AddChangeIsRule == ablks # <<>> =>
                     \A c \in {C1, C2, B0, B1} :
                        LET ch == ablks[1].ch  nw == AAddOp(ch, c) IN
                        /\ nw = AAddRule(ch, c)
                        /\ Len(nw) = Len(ch) + 1
                        /\ \E p \in 1..Len(nw) : nw[p] = c /\ SubSeq(nw, 1, p - 1) \o SubSeq(nw, p + 1, Len(nw)) = ch
\* rendering: an error exactly when a mandatory attribute is None; the whole = the blocks in order
RenderLaws == /\ \A i \in 1..Len(ablks) :
                    LET b == ablks[i]  r == QRender(b) IN
                    /\ r.ok = (b.pk # None /\ AHasVer(b) /\ b.ds # None /\ b.au # None /\ b.da # None)
                    /\ (r.ok => /\ Len(r.lines) = 2 + Len(b.ch) + Len(b.tr)
                                /\ r.lines[1][1] = AT(b.pk) /\ r.lines[1][3] = AT(b.vr.s) /\ r.lines[1][5] = AT(b.ds)
                                /\ Len(r.lines[1]) = 8 + 4 * Len(b.kv)
                                /\ r.lines[2 + Len(b.ch)] = <<AL(" -- "), AT(b.au), AL("  "), AT(b.da)>>)
              /\ LET w == QWhole(ablks) IN
                 /\ w.ok = (\A i \in 1..Len(ablks) : QRender(ablks[i]).ok)
                 /\ (w.ok => w.lines = FoldLeft(LAMBDA acc, b : acc \o QRender(b).lines, <<>>, ablks))
\* normalised keys: first character upper case, the rest lower case; the result always is an extension key
ANormApply(cls, n) == (IF n.pre THEN <<"X", "B", "-">> ELSE <<>>) \o [i \in 1..Len(cls) |-> IF n.cs[i] = "U" THEN AUp(cls[i]) ELSE ALow(cls[i])]
AKeysSeen == {K1, K2, K3, K4} \cup UNION {{ablks[i].kv[j].k : j \in 1..Len(ablks[i].kv)} : i \in 1..Len(ablks)}
NormShape == \A k \in AKeysSeen :
                LET n == ANormKey(k.cls)  out == ANormApply(k.cls, n) IN
                /\ n.cs[1] = (IF k.cls[1] \in {"9", "-"} THEN "L" ELSE "U")
                /\ \A i \in 2..Len(k.cls) : n.cs[i] = "L"
                /\ AIsExt(out)
                /\ ~ANormKey(out).pre          \* (normalising again keeps the key an extension key)
                /\ n.pre = ~AIsExt(k.cls)

\* CASE lines (hist mode): one per history
AShow(c) == CASE c.op = "new_block"   -> [op |-> c.op, kind |-> c.kind, a |-> c.a]
              [] c.op = "set"         -> [op |-> c.op, f |-> c.f, v |-> c.sv]
              [] c.op = "set_version" -> [op |-> c.op, v |-> c.vv]
              [] c.op = "add_change"  -> [op |-> c.op, v |-> c.cv]
AEmitCase == (AEmit /\ AMode = "hist") =>
    PrintT(<<"CASE", ToJson([init |-> ainit, enc |-> aenc, hist |-> [i \in 1..Len(ahist) |-> AShow(ahist[i])], res |-> ares,
                             obs |-> AObs(ablks, aenc, ahist = <<>>)])>>)
=============================================================================
