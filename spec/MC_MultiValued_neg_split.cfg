\* C12 -- NEGATIVE CONTROL: split(' ') instead of split(); RecordsRoundTrip must be violated
CONSTANTS
  Tables <- DocTables
  Modes <- ModesNegSplit
  IterateAllFields = FALSE
  SplitEverySpace = TRUE
  CacheWidths = FALSE
  SharedEqualRecords = FALSE
  ClassLevelOption = FALSE
  StoreBeforeValidate = FALSE
  ReorderStoresPlainKeys = FALSE
  RefusedUnlinksFirst = FALSE
  Emit = FALSE
  EmitOff = 0
SPECIFICATION Spec
INVARIANT TypeOK
INVARIANT DumpTotal
INVARIANT WidthTable
INVARIANT DumpExplains
INVARIANT RecordsRoundTrip
INVARIANT SubFieldNames
INVARIANT WidthRule
INVARIANT RightAligned
INVARIANT SingleBlanks
PROPERTY LoadIsIdentity
PROPERTY EditIsLocal
PROPERTY OtherIsOther
CHECK_DEADLOCK FALSE
