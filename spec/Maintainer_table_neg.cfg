CONSTANTS
  MtMode = "table"
  MtDefects = {"keyerr"}
  MtEmit = "none"
SPECIFICATION MtSpec
INVARIANT MtTypeOK
INVARIANT DebfullnameWins
INVARIANT DebemailWins
INVARIANT EmailIgnoresNames
INVARIANT NameIgnoresMailSetup
INVARIANT FallbackOnlyWhenUnset
INVARIANT NoneOnlyWhenUndetermined
INVARIANT NeverRaises
INVARIANT SplitExplainsAlg
INVARIANT SplitIdempotent
INVARIANT ZoneCharacterised
CHECK_DEADLOCK FALSE
