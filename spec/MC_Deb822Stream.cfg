CONSTANTS
  WsSeparates = TRUE
  NoText = 0
  TrimFirst = TRUE
  CommentEndsValue = FALSE
  LeadingBlankSkipped = TRUE
  ArmorHeadersSkipped = TRUE
  GpgMvLeadOK = TRUE
  Keys = {}
  MaxPara = 2
  MaxFields = 2
  MaxCont = 1
  MaxTotal = 2
  ShapeMode = 0
  ArmorHdrs = {1}
  SigBools = {TRUE}
  BigSel = {}
  ArmorMaxFields = 1
  Emit = FALSE
  BlockSizes = {2, 3, 4}
  WidthModes = {1, 2, 3}
  ShortReads = TRUE
  KeepEmptyTail = FALSE
  DropPartialLast = FALSE
  PerChunkLines = FALSE
  BufferShortcut = FALSE
SPECIFICATION BSpec
INVARIANT StreamInvariant
INVARIANT ReadOnInvariant
INVARIANT PositionInvariant
CHECK_DEADLOCK FALSE
