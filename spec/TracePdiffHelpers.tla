-------------------------- MODULE TracePdiffHelpers --------------------------
(***************************************************************************)
(* X18 -- trace validation for the value-level helpers (PdiffHelpers):     *)
(* recorded call histories of one process that mix patch_lines on several  *)
(* live lists, the digests, merge_as_sets and download_gunzip_lines.       *)
(* Events (records; lines and hunk arguments are line ids, elements ranks, *)
(* texts UTF-8 length classes, file contents symbols):                     *)
(*   [op |-> "new", b, v]              a new live list b with the lines v  *)
(*   [op |-> "patch", b, hunks, out, after]   patch_lines on list b;       *)
(*        out "ok" | "raise"; after = every live list after the call       *)
(*   [op |-> "frame", after]           the harness changed something that  *)
(*        must not be shared with the lists (hunk argument lists, returned *)
(*        lists): every live list is as the model has it                   *)
(*   [op |-> "hash", text, chunks, got] got = the byte sequence whose      *)
(*        digest the function returned (identified by the harness among    *)
(*        candidate byte strings; <<<<0, 0>>>> when it is none of them)    *)
(*   [op |-> "merge", args, res]       merge_as_sets(args...) = res        *)
(*   [op |-> "gunzip", content, cuts, damage, out, got]                    *)
(* The model keeps the live lists (variable lbufs) and explains every      *)
(* event with the pure operators of PdiffHelpers.                          *)
(***************************************************************************)
EXTENDS PdiffHelpers, IOUtils, TLCExt

VARIABLES tid, el, lbufs
tvars == <<tid, el, lbufs, pk, pdone>>

Traces == JsonDeserialize(IOEnv.TRACE_FILE)
Diag == IOEnv.TRACE_DIAG = "1"
Tr == Traces[tid]
Chk(P) == P = TRUE

Live == DOMAIN lbufs
\* every live list is as the event reports it
SameLists(after, bufs) == DOMAIN after = DOMAIN bufs /\ \A b \in DOMAIN bufs : after[b] = bufs[b]
Put(bufs, b, v) == [x \in DOMAIN bufs \cup {b} |-> IF x = b THEN v ELSE bufs[x]]

Explain(e) ==
  CASE e.op = "new" -> /\ Chk(e.b \notin Live) /\ lbufs' = Put(lbufs, e.b, e.v)
    [] e.op = "patch" ->
         LET r == PApplyAll(lbufs[e.b], e.hunks) IN
         IF r.zone = "in"
         THEN /\ Chk(e.out = "ok") /\ lbufs' = Put(lbufs, e.b, r.buf) /\ Chk(SameLists(e.after, lbufs'))
         ELSE IF r.zone = "beyond"
         THEN \* refused (the patched list is then unspecified) or cut at the end like a slice
              /\ lbufs' = (IF e.out = "raise" THEN Put(lbufs, e.b, e.after[e.b]) ELSE Put(lbufs, e.b, r.buf))
              /\ Chk(SameLists(e.after, lbufs'))
         ELSE \* unspecified hunk: the patched list is whatever it is, the others are untouched
              /\ lbufs' = Put(lbufs, e.b, e.after[e.b]) /\ Chk(SameLists(e.after, lbufs'))
    [] e.op = "frame" -> Chk(SameLists(e.after, lbufs)) /\ UNCHANGED lbufs
    [] e.op = "hash" -> Chk(e.got = HBytes(e.text)) /\ Chk(HPre(e.text, e.chunks) = HBytes(e.text)) /\ UNCHANGED lbufs
    [] e.op = "merge" -> Chk(e.res = MSorted(MUnion(e.args))) /\ UNCHANGED lbufs
    [] e.op = "gunzip" ->
         LET x == GExpect(e.damage) IN
         /\ Chk(x = "lines" => e.out = "lines" /\ e.got = GLines(e.content))
         /\ Chk(x = "raise" => e.out = "raise")
         /\ Chk(e.out \in {"lines", "raise"})          \* "leak": a temporary file was left behind
         /\ UNCHANGED lbufs

TInit == tid \in 1..Len(Traces) /\ el = 1 /\ lbufs = <<>> /\ pk = 0 /\ pdone = TRUE
TNext == /\ el <= Len(Tr)
         /\ Explain(Tr[el])
         /\ el' = el + 1 /\ tid' = tid /\ UNCHANGED <<pk, pdone>>
         /\ (Diag => PrintT(<<"AT", tid, el>>))
         /\ (el' = Len(Tr) + 1 => PrintT(<<"ACCEPTED", tid>>))
TSpec == TInit /\ [][TNext]_tvars
===============================================================================
