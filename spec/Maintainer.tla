------------------------------ MODULE Maintainer ------------------------------
(***************************************************************************)
(* X08 (b) -- debian.changelog.get_maintainer(): who is the maintainer,    *)
(* decided "in the same manner as dch" from the environment variables      *)
(* DEBFULLNAME, NAME, DEBEMAIL, EMAIL, the password database and           *)
(* /etc/mailname / the host name.                                          *)
(*                                                                         *)
(* STATEMENT (docstring of get_maintainer; dch(1), section on the          *)
(* maintainer name and email; the algorithm of debchange.pl it ports).     *)
(*  For every environment and every call history get_maintainer() returns  *)
(*  (name, email) decided from the environment AT THE TIME OF THE CALL:    *)
(*   name   DEBFULLNAME when set; otherwise the name part of DEBEMAIL /    *)
(*          EMAIL of the form "Name <addr>", NAME, or the gecos field of   *)
(*          the password database up to its first comma (None when there   *)
(*          is no entry / no pwd module);                                  *)
(*   email  DEBEMAIL when set, else EMAIL when set -- of a value of the    *)
(*          form "Name <addr>" only addr --, else user@domain with the     *)
(*          login name of the password database and the first line of      *)
(*          /etc/mailname (when the file exists and the line is not        *)
(*          empty) or else the fully qualified host name; None when user   *)
(*          or domain cannot be determined.  "Either of the pair may be    *)
(*          None if that value couldn't be determined": it never raises.   *)
(*  A call is a pure observation: it does not modify os.environ and its    *)
(*  result does not depend on earlier calls or earlier environments.       *)
(*                                                                         *)
(* "Set" is dch's `exists`: a variable set to the empty string is set and  *)
(* yields "".  Values are opaque texts (tokens): the model never looks     *)
(* inside, so lengths and characters are the harness's concretization.     *)
(*                                                                         *)
(* UNSPECIFIED (executed, every outcome accepted):                         *)
(*  * the NAME where the manual page and the algorithm of dch disagree     *)
(*    (MtDocName vs MtAlgName below, characterised by MtZone): the manual  *)
(*    prefers NAME to the name part of DEBEMAIL / EMAIL and tests EMAIL    *)
(*    only when DEBEMAIL is not set; the algorithm prefers the name parts  *)
(*    and tests EMAIL whenever DEBFULLNAME or DEBEMAIL is missing;         *)
(*  * values of DEBEMAIL / EMAIL that are neither free of angle brackets   *)
(*    nor exactly  name, ONE blank or tab, <addr>  with a non-empty name   *)
(*    without angle brackets and outer white space (kind "odd": "<a@b>",   *)
(*    " <a@b>", "N  <a@b>", "N <a@b> ", ...), wherever they are consulted; *)
(*  * an empty gecos field or one that starts with a comma: "" or None     *)
(*    (result kind "eon");                                                 *)
(*  * a first line of /etc/mailname with white space around the domain or  *)
(*    consisting of white space only (dch chomps, the library strips).     *)
(*                                                                         *)
(* Terms.  A value is [k, n, a]: k in unset / empty / plain (token n) /    *)
(* form (name token n, address token a) / odd (token n).  A result is      *)
(* [k, n, a]: tok (the text of token n) / addr (text of n, "@", text of a) *)
(* / none / empty / eon / any / raise.                                     *)
(*                                                                         *)
(* KNOWN-DEFECT switches (MtDefects; {} is the statement):                 *)
(*   "writeback"  the "Name <addr>" split is stored back into os.environ   *)
(*                (DEBFULLNAME := name unless set, DEBEMAIL / EMAIL :=     *)
(*                addr): the environment is modified and a later call      *)
(*                after DEBEMAIL changed returns the stale name;           *)
(*   "keyerr"     the email fall-back lets the KeyError of                 *)
(*                pwd.getpwuid (no entry for the uid) escape.              *)
(*                                                                         *)
(* Two configurations.                                                     *)
(*  Mode "table": every (environment shape, system shape) is one initial   *)
(*   state, no steps: the decision table.  Invariants MtTypeOK,            *)
(*   DebfullnameWins, DebemailWins, EmailIgnoresNames,                     *)
(*   NameIgnoresMailSetup, FallbackOnlyWhenUnset, NoneOnlyWhenUndetermined,*)
(*   NeverRaises, SplitExplainsAlg, SplitIdempotent, ZoneCharacterised.    *)
(*   EmitCase prints one CASE per state (expected name, email, environment *)
(*   afterwards; the outcomes of the known-defect models when different;   *)
(*   MtEmit = "quick" prints the covering part MtInQuick only).  After an  *)
(*   odd value was parsed the environment under "writeback" is the         *)
(*   wildcard MtAnyV where the parse decides (MtEnvFits).                  *)
(*  Mode "hist": the caller's view of the environment (menv) against the   *)
(*   process environment (penv): actions MtSet / MtDel / MtCall over a     *)
(*   small palette; invariants EnvUntouched, ResultIsCurrent.              *)
(* Spec-level negative controls (each tried; x08.py re-runs them):         *)
(*   MtDefects = {"keyerr"}    (table) -> NeverRaises                      *)
(*   MtDefects = {"writeback"} (hist)  -> EnvUntouched, and with only      *)
(*                                        ResultIsCurrent checked ->       *)
(*                                        ResultIsCurrent (depth 4)        *)
(***************************************************************************)
EXTENDS Integers, Sequences, FiniteSets, TLC, Json

CONSTANTS MtMode,      \* "table" | "hist" | "none" (trace validation)
          MtDefects,   \* known-defect switches active in the model
          MtEmit       \* print CASE lines: "none" | "quick" (a covering part of the table) | "all"

VARIABLES menv,        \* the environment as the caller set it: [DF, NM, DE, EM]
          msys,        \* password database, /etc/mailname, host name
          penv,        \* the environment of the process (os.environ)
          mres         \* result of the last call
mvars == <<menv, msys, penv, mres>>

MtKnown == {"writeback", "keyerr"}

----------------------------------------------------------------------------
\* terms

MtV(k, n, a) == [k |-> k, n |-> n, a |-> a]
MtUnset      == MtV("unset", 0, 0)
MtEmptyV     == MtV("empty", 0, 0)
MtPlain(t)   == MtV("plain", t, 0)
MtForm(n, a) == MtV("form", n, a)
MtOdd(t)     == MtV("odd", t, 0)

MtR(k, n, a) == [k |-> k, n |-> n, a |-> a]
MtTok(t)     == MtR("tok", t, 0)
MtAddr(u, d) == MtR("addr", u, d)
MtNone       == MtR("none", 0, 0)
MtEmptyR     == MtR("empty", 0, 0)
MtEon        == MtR("eon", 0, 0)
MtAny        == MtR("any", 0, 0)
MtRaise      == MtR("raise", 0, 0)

MtIsSet(v) == v.k # "unset"
\* the text of a variable that is used verbatim
MtVal(v) == IF v.k = "empty" THEN MtEmptyR ELSE MtTok(v.n)
\* the address of DEBEMAIL / EMAIL
MtAddrOf(v) == CASE v.k = "empty" -> MtEmptyR
                 [] v.k = "plain" -> MtTok(v.n)
                 [] v.k = "form"  -> MtTok(v.a)
                 [] v.k = "odd"   -> MtAny

----------------------------------------------------------------------------
\* the fall-backs (abstracted sources)

\* msys = [pw |-> [k, g |-> [k, n], u |-> [k, n]], mn |-> [k, n], fq |-> [k, n]]
\*   pw.k  nomod (no pwd module / no getpwuid) | noentry (KeyError) | entry
\*   pw.g  gecos: empty | plain (no comma) | commas (token n, comma, more) | lead (starts with a comma)
\*   pw.u  login name: empty | plain
\*   mn    /etc/mailname: absent | empty (no first line or an empty one) | dom (token n) | ws
\*   fq    socket.getfqdn(): empty | plain
MtPwName(s) ==
   IF s.pw.k # "entry" THEN MtNone
   ELSE IF s.pw.g.k \in {"plain", "commas"} THEN MtTok(s.pw.g.n)
   ELSE MtEon

MtDomain(s) ==      \* [k |-> "tok" | "none" | "any", n]
   CASE s.mn.k = "dom" -> MtTok(s.mn.n)
     [] s.mn.k = "ws"  -> MtAny
     [] OTHER          -> IF s.fq.k = "plain" THEN MtTok(s.fq.n) ELSE MtNone

MtFallbackEmail(d, s) ==
   LET dom == MtDomain(s) IN
   IF dom.k = "any" THEN MtAny
   ELSE IF dom.k = "none" THEN MtNone                      \* the password database is not consulted
   ELSE CASE s.pw.k = "nomod"   -> MtNone
          [] s.pw.k = "noentry" -> IF "keyerr" \in d THEN MtRaise ELSE MtNone
          [] s.pw.k = "entry"   -> IF s.pw.u.k = "plain" THEN MtAddr(s.pw.u.n, dom.n) ELSE MtNone

----------------------------------------------------------------------------
\* the decision

\* email: the manual page and the algorithm agree
MtEmail(d, e, s) ==
   IF MtIsSet(e.DE) THEN MtAddrOf(e.DE)
   ELSE IF MtIsSet(e.EM) THEN MtAddrOf(e.EM)
   ELSE MtFallbackEmail(d, s)

\* name, the algorithm of dch (debchange.pl) = of the library
MtAlgName(e, s) ==
   IF MtIsSet(e.DF) THEN MtVal(e.DF)
   ELSE IF e.DE.k = "odd" THEN MtAny
   ELSE IF e.DE.k = "form" THEN MtTok(e.DE.n)
   ELSE IF e.EM.k = "odd" THEN MtAny
   ELSE IF e.EM.k = "form" THEN MtTok(e.EM.n)
   ELSE IF MtIsSet(e.NM) THEN MtVal(e.NM)
   ELSE MtPwName(s)

\* name, the manual page dch(1)
MtDocName(e, s) ==
   IF MtIsSet(e.DF) THEN MtVal(e.DF)
   ELSE IF MtIsSet(e.NM) THEN MtVal(e.NM)
   ELSE IF MtIsSet(e.DE)
        THEN (IF e.DE.k = "odd" THEN MtAny ELSE IF e.DE.k = "form" THEN MtTok(e.DE.n) ELSE MtPwName(s))
        ELSE (IF e.EM.k = "odd" THEN MtAny ELSE IF e.EM.k = "form" THEN MtTok(e.EM.n) ELSE MtPwName(s))

\* name, the statement: decided where both readings agree
MtName(e, s) ==
   LET x == MtAlgName(e, s)  y == MtDocName(e, s)
   IN IF x = y THEN x ELSE MtAny

\* where the two readings disagree (ZoneCharacterised): DEBFULLNAME is not set and
\*   NAME competes with a name part, or EMAIL's name part is reachable only for the algorithm
MtZone(e) ==
   /\ ~MtIsSet(e.DF)
   /\ \/ MtIsSet(e.NM) /\ (e.DE.k \in {"form", "odd"} \/ e.EM.k \in {"form", "odd"})
      \/ ~MtIsSet(e.NM) /\ e.DE.k \in {"empty", "plain"} /\ e.EM.k \in {"form", "odd"}

\* the "Split email and name" phase of the algorithm as a function on environments
\* (the library stores its result in os.environ: defect "writeback")
MtAnyV == MtV("any", 0, 0)       \* after an odd value was parsed: whatever (fits every observation)
MtSplit(e) ==
   LET fill(df, n) == IF df.k = "unset" THEN n ELSE df
       e1 == CASE e.DE.k = "form" -> [e EXCEPT !.DF = fill(@, MtPlain(e.DE.n)), !.DE = MtPlain(e.DE.a)]
               [] e.DE.k = "odd"  -> [e EXCEPT !.DF = fill(@, MtAnyV), !.DE = MtAnyV]
               [] OTHER           -> e
       sure  == e1.DE.k = "unset" \/ e1.DF.k = "unset"        \* EMAIL is looked at
       maybe == e1.DF.k = "any"                               \* ... depends on how the odd DEBEMAIL was parsed
   IN CASE sure /\ e1.EM.k = "form" -> [e1 EXCEPT !.DF = fill(@, MtPlain(e1.EM.n)), !.EM = MtPlain(e1.EM.a)]
        [] sure /\ e1.EM.k = "odd"  -> [e1 EXCEPT !.DF = fill(@, MtAnyV), !.EM = MtAnyV]
        [] ~sure /\ maybe /\ e1.EM.k \in {"form", "odd"} -> [e1 EXCEPT !.EM = MtAnyV]
        [] OTHER -> e1
\* does the environment found after a call fit the predicted one
MtEnvFits(post, obs) == \A v \in {"DF", "NM", "DE", "EM"} : post[v].k = "any" \/ post[v] = obs[v]
MtNameAfterSplit(e, s) ==
   IF MtIsSet(e.DF) THEN MtVal(e.DF) ELSE IF MtIsSet(e.NM) THEN MtVal(e.NM) ELSE MtPwName(s)
MtHasOdd(e) == e.DE.k = "odd" \/ e.EM.k = "odd"

\* one call under the defect model d on the process environment e:
\* [name, email, post]  (a raised exception replaces the whole result)
MtCallOn(d, e, s) ==
   LET em == MtEmail(d, e, s)
       \* an unspecified mail domain under the defect "keyerr": the call may raise or not
       mayraise == /\ "keyerr" \in d /\ em.k = "any" /\ ~MtIsSet(e.DE) /\ ~MtIsSet(e.EM)
                   /\ s.pw.k = "noentry"
   IN [name  |-> IF em.k = "raise" THEN MtRaise ELSE IF mayraise THEN MtAny ELSE MtName(e, s),
       email |-> em,
       post  |-> IF "writeback" \in d THEN MtSplit(e) ELSE e]

\* does the observation o (a result term: tok / addr / none / empty / raise / other) fit the expectation x
MtFits(x, o) ==
   \/ x.k = "any"
   \/ x.k = "eon" /\ o.k \in {"none", "empty"}
   \/ x = o

----------------------------------------------------------------------------
\* palettes

MtNameShapes(t)  == {MtUnset, MtEmptyV, MtPlain(t)}
MtEmailShapes(n, a) == {MtUnset, MtEmptyV, MtPlain(a), MtForm(n, a), MtOdd(a)}
MtEnvs == [DF : MtNameShapes(1), NM : MtNameShapes(2), DE : MtEmailShapes(3, 4), EM : MtEmailShapes(5, 6)]

MtG(k, n) == [k |-> k, n |-> n]
MtPws == {[k |-> "nomod", g |-> MtG("empty", 0), u |-> MtG("empty", 0)],
          [k |-> "noentry", g |-> MtG("empty", 0), u |-> MtG("empty", 0)]}
         \cup [k : {"entry"},
               g : {MtG("empty", 0), MtG("lead", 0), MtG("plain", 7), MtG("commas", 7)},
               u : {MtG("empty", 0), MtG("plain", 8)}]
MtSyss == [pw : MtPws,
           mn : {MtG("absent", 0), MtG("empty", 0), MtG("dom", 9), MtG("ws", 9)},
           fq : {MtG("empty", 0), MtG("plain", 10)}]

MtEnv0 == [DF |-> MtUnset, NM |-> MtUnset, DE |-> MtUnset, EM |-> MtUnset]
MtSys0 == [pw |-> [k |-> "entry", g |-> MtG("commas", 7), u |-> MtG("plain", 8)],
           mn |-> MtG("absent", 0), fq |-> MtG("plain", 10)]

\* history palette: second generation tokens 11.. so that a stale value differs from the current one
MtHistVals(v) ==
   CASE v = "DF" -> {MtPlain(1), MtPlain(11)}
     [] v = "NM" -> {MtPlain(2)}
     [] v = "DE" -> {MtPlain(4), MtForm(3, 4), MtForm(13, 14)}
     [] v = "EM" -> {MtPlain(6), MtForm(5, 6)}
MtVars == {"DF", "NM", "DE", "EM"}

----------------------------------------------------------------------------
\* the state machine

MtInit ==
   IF MtMode = "table"
   THEN menv \in MtEnvs /\ msys \in MtSyss /\ penv = menv /\ mres = MtCallOn(MtDefects, menv, msys)
   ELSE menv = MtEnv0 /\ msys = MtSys0 /\ penv = menv /\ mres = MtCallOn(MtDefects, menv, msys)

\* the caller assigns / deletes a variable: both views change
MtSet(v, x) == /\ menv' = [menv EXCEPT ![v] = x]
               /\ penv' = [penv EXCEPT ![v] = x]
               /\ UNCHANGED <<msys, mres>>
MtDel(v)    == /\ MtIsSet(penv[v])
               /\ menv' = [menv EXCEPT ![v] = MtUnset]
               /\ penv' = [penv EXCEPT ![v] = MtUnset]
               /\ UNCHANGED <<msys, mres>>
\* one call of get_maintainer(): decided on the process environment
MtCall      == /\ mres' = MtCallOn(MtDefects, penv, msys)
               /\ penv' = mres'.post
               /\ UNCHANGED <<menv, msys>>

MtNext == /\ MtMode = "hist"
          /\ \/ \E v \in MtVars : \E x \in MtHistVals(v) : MtSet(v, x)
             \/ \E v \in MtVars : MtDel(v)
             \/ MtCall
MtSpec == MtInit /\ [][MtNext]_mvars

----------------------------------------------------------------------------
\* invariants, mode "table" (evaluated for every shape of environment and system)

MtValOK(v) == v.k \in {"unset", "empty", "plain", "form", "odd", "any"}
MtResOK(r) == r.k \in {"tok", "addr", "none", "empty", "eon", "any", "raise"}
MtTypeOK == /\ \A v \in MtVars : MtValOK(menv[v]) /\ MtValOK(penv[v])
            /\ MtResOK(mres.name) /\ MtResOK(mres.email)

HereName  == MtName(menv, msys)
HereEmail == MtEmail(MtDefects, menv, msys)

DebfullnameWins == MtIsSet(menv.DF) => HereName = MtVal(menv.DF)
DebemailWins    == /\ MtIsSet(menv.DE) => HereEmail = MtAddrOf(menv.DE)
                   /\ ~MtIsSet(menv.DE) /\ MtIsSet(menv.EM) => HereEmail = MtAddrOf(menv.EM)
\* the address never depends on the name variables or on gecos
EmailIgnoresNames ==
   \A df \in MtNameShapes(1), nm \in MtNameShapes(2), g \in {MtG("empty", 0), MtG("plain", 7)} :
      MtEmail(MtDefects, [menv EXCEPT !.DF = df, !.NM = nm], [msys EXCEPT !.pw.g = g]) = HereEmail
\* the name never depends on /etc/mailname, the host name or the login name
NameIgnoresMailSetup ==
   \A mn \in {MtG("absent", 0), MtG("dom", 9)}, fq \in {MtG("empty", 0), MtG("plain", 10)},
      u \in {MtG("empty", 0), MtG("plain", 8)} :
      MtName(menv, [msys EXCEPT !.mn = mn, !.fq = fq, !.pw.u = u]) = HereName
FallbackOnlyWhenUnset ==
   /\ HereEmail.k = "addr" => ~MtIsSet(menv.DE) /\ ~MtIsSet(menv.EM)
   /\ (HereName.k = "tok" /\ HereName.n = 7) => ~MtIsSet(menv.DF) /\ ~MtIsSet(menv.NM)
                                                /\ menv.DE.k # "form" /\ menv.EM.k # "form"
NoneOnlyWhenUndetermined ==
   /\ HereEmail.k = "none" =>
         /\ ~MtIsSet(menv.DE) /\ ~MtIsSet(menv.EM)
         /\ \/ msys.mn.k # "dom" /\ msys.fq.k = "empty"                     \* no domain
            \/ msys.pw.k # "entry" \/ msys.pw.u.k = "empty"                 \* no login name
   /\ HereName.k = "none" => msys.pw.k # "entry" /\ ~MtIsSet(menv.DF) /\ ~MtIsSet(menv.NM)
NeverRaises == HereEmail.k # "raise" /\ mres.name.k # "raise"
\* the algorithm of dch IS "split, then DEBFULLNAME / NAME / gecos", and splitting twice changes nothing:
\* a single call cannot see the write-back (only the environment and later calls can)
SplitExplainsAlg ==
   ~MtHasOdd(menv) =>
      /\ MtAlgName(menv, msys) = MtNameAfterSplit(MtSplit(menv), msys)
      /\ MtAlgName(MtSplit(menv), msys) = MtAlgName(menv, msys)
      /\ MtEmail(MtDefects, MtSplit(menv), msys) = HereEmail
SplitIdempotent == MtSplit(MtSplit(menv)) = MtSplit(menv)
ZoneCharacterised == (MtAlgName(menv, msys) # MtDocName(menv, msys)) <=> MtZone(menv)

\* invariants, mode "hist"
EnvUntouched    == penv = menv
MtFresh == mres.post = penv    \* the last action was a call (or nothing changed since)
ResultIsCurrent ==      \* whatever happened before, a call decides on what the caller has set NOW
   MtFresh =>
      LET want == MtCallOn({}, menv, msys)
      IN MtFits(want.name, mres.name) /\ MtFits(want.email, mres.email)

----------------------------------------------------------------------------
\* emission (spec -> code): one CASE per shape with the outcomes of the known-defect models that differ

MtDName(d) == [writeback |-> "writeback" \in d, keyerr |-> "keyerr" \in d]
RECURSIVE MtSetToSeq(_)
MtSetToSeq(S) == IF S = {} THEN <<>> ELSE LET m == CHOOSE x \in S : TRUE IN <<m>> \o MtSetToSeq(S \ {m})
\* the part of the table replayed by the quick tier: every environment shape; the complete system
\* palette where nothing decides the address, otherwise every password-database shape under two
\* mail set-ups (EmailIgnoresNames / NameIgnoresMailSetup / DebemailWins say the rest cannot matter)
MtInQuick(e, s) ==
   \/ ~MtIsSet(e.DE) /\ ~MtIsSet(e.EM)
   \/ s.mn.k = "absent" /\ s.fq.k = "plain" /\ (s.pw.k = "entry" => s.pw.u.k = "plain")
   \/ s.mn.k = "dom" /\ s.fq.k = "empty" /\ (s.pw.k = "entry" => s.pw.u.k = "empty")
EmitCase ==
   (MtEmit = "all" \/ (MtEmit = "quick" /\ MtInQuick(menv, msys))) =>
      LET want == MtCallOn({}, menv, msys)
          alts == {da \in {[d |-> MtDName(d), o |-> MtCallOn(d, menv, msys)] : d \in (SUBSET MtKnown) \ {{}}} : da.o # want}
      IN PrintT(<<"CASE", ToJson([env |-> menv, sys |-> msys, want |-> want, zone |-> MtZone(menv),
                                  alts |-> MtSetToSeq(alts)])>>)
=============================================================================
