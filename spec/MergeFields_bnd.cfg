CONSTANTS
  Ids = {1, 2, 3}
  Objs = {"p", "q"}
  Moves = TRUE
  Shapes = TRUE
  Defects = {}
  NoSort = FALSE
  Emit = TRUE
SPECIFICATION Spec
VIEW MView
INVARIANT TypeOK
INVARIANT AllWellFormed
INVARIANT Determinate
INVARIANT ImplRefines
INVARIANT DefectScope
INVARIANT LawIdempotent
INVARIANT LawCommutative
INVARIANT EmitCase
PROPERTY ResWellFormed
PROPERTY Monotone
PROPERTY Bystanders
PROPERTY InPlace
CHECK_DEADLOCK FALSE
