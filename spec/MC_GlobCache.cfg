CONSTANTS
  Sigma = {}
  NSigma = {}
  MaxParas = 1
  MaxPats = 2
  MaxPatLen = 2
  MaxSyms = 4
  MaxNameLen = 2
  Discipline = "full"
  DotAll = TRUE
  FindFirst = FALSE
  AffixFrom = 0
  Emit = "lts"
  BlockLen = 0
  StaleCache = FALSE
  KeyBeforeTranslate = FALSE
  ConvMemo = FALSE
  Pool <- MCPool
  QNames <- MCQNames
SPECIFICATION CSpec
INVARIANT CacheCoherent
PROPERTY SameResult
VIEW CView
CHECK_DEADLOCK FALSE
