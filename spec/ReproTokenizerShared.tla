------------------------ MODULE ReproTokenizerShared ------------------------
(***************************************************************************)
(* C01, process-wide view -- the property quantifies over every line       *)
(* sequence REGARDLESS of what was parsed before and of what the caller    *)
(* did with earlier results.  ReproTokenizer.tla models one parse; this    *)
(* module models a process: several live documents, the objects (tokens /  *)
(* elements) they are made of, and what a cache keyed by line text would   *)
(* hold.                                                                   *)
(*                                                                         *)
(*   docs    live documents [input, cells, edited]; cells = ids of the     *)
(*           objects the document is made of (one per line is enough here) *)
(*   store   object id -> content (a line id, or Edited = 0 once the       *)
(*           caller changed the object through the public API: in-place    *)
(*           edits such as add_final_newline_if_missing, value replacement)*)
(*   memo    line text -> object id handed out for it (history variable:   *)
(*           it is always recorded, it is only USED when SharedTokens)     *)
(*   caller  the caller's list objects as the caller sees them afterwards  *)
(*   tgt     the document the last step operated on (0: none)              *)
(*   pending objects of a run that an ABORTED parse had collected but not  *)
(*           yet turned into an element (what a run buffer that outlives   *)
(*           the call would still hold); only USED when LeftoverRunBuffer  *)
(*                                                                         *)
(* Actions: Parse(inp) builds a new document (fresh objects; with          *)
(* SharedTokens = TRUE the object cached for an equal line is reused),     *)
(* CallerMutates(d, i) edits object i of document d in place,              *)
(* CallerRemoves(d, i) removes it from document d (structural edit),       *)
(* ParseFails(inp) is a parse that consumes the k lines of inp and then    *)
(* raises (the input iterable raises, a bytes line does not decode, the    *)
(* line sequence is outside the domain): it returns no document; the       *)
(* property quantifies over every valid input regardless of such earlier   *)
(* calls.                                                                  *)
(* Checked: UnmodifiedLossless (every document the caller did not touch    *)
(* still dumps to its input), Isolation (a step changes the dump of no     *)
(* document other than its target; Parse changes none), InputUntouched     *)
(* (the caller's list is what it passed in).                               *)
(* The harness (props/c01.py, shared-state scenarios) drives the real      *)
(* parser through the behaviours                                           *)
(*   Parse(P), Parse(C)                      dump(P) re-verified           *)
(*   Parse(A), Parse(B), CallerMutates(A..), Parse(A), CallerMutates(B..)  *)
(*   ParseFails(k lines, then: generator raises | undecodable bytes |      *)
(*              unterminated non-final line), Parse(C)                     *)
(* and compares exactly these three observables.                           *)
(* Spec-level negative controls (tried; re-run by c01.py):                 *)
(*   SharedTokens = TRUE      -> UnmodifiedLossless violated               *)
(*   LeftoverRunBuffer = TRUE -> UnmodifiedLossless violated (the objects  *)
(*        an aborted parse left behind are prepended to the next document) *)
(***************************************************************************)
EXTENDS Naturals, Sequences, FiniteSets, TLC

CONSTANTS LineIds,        \* distinct line texts
          MaxLen,         \* longest input
          MaxDocs,        \* live documents
          MaxEdits,       \* caller edits per behaviour (keeps the configuration small)
          SharedTokens,   \* negative control: objects are cached per line text and reused
          LeftoverRunBuffer, \* negative control: the run buffer of an aborted parse survives the call
          MaxFails        \* aborted parses per behaviour

VARIABLES docs, store, memo, caller, tgt, edits, pending, fails
vars == <<docs, store, memo, caller, tgt, edits, pending, fails>>

Edited == 0
ASSUME Edited \notin LineIds

Inputs == UNION {[1..n -> LineIds] : n \in 1..MaxLen}
NextId == Cardinality(DOMAIN store) + 1

\* allocate the objects of one parse, line by line: [cells, store, memo]
RECURSIVE Alloc(_, _, _)
Alloc(inp, i, acc) ==
   IF i > Len(inp) THEN acc
   ELSE LET t   == inp[i]
            hit == SharedTokens /\ t \in DOMAIN acc.memo
            id  == IF hit THEN acc.memo[t] ELSE Cardinality(DOMAIN acc.store) + 1
        IN Alloc(inp, i + 1,
                 [cells |-> Append(acc.cells, id),
                  store |-> IF hit THEN acc.store ELSE (id :> t) @@ acc.store,
                  memo  |-> (t :> id) @@ acc.memo])

DumpOf(d, st) == [i \in 1..Len(d.cells) |-> st[d.cells[i]]]

Init == docs = <<>> /\ store = <<>> /\ memo = <<>> /\ caller = <<>> /\ tgt = 0 /\ edits = 0 /\ pending = <<>> /\ fails = 0

Parse(inp) ==
   /\ Len(docs) < MaxDocs
   /\ LET r == Alloc(inp, 1, [cells |-> <<>>, store |-> store, memo |-> memo])
      IN /\ docs' = Append(docs, [input |-> inp, edited |-> FALSE,
                                  cells |-> (IF LeftoverRunBuffer THEN pending ELSE <<>>) \o r.cells])
         /\ store' = r.store
         /\ memo' = r.memo
   /\ caller' = Append(caller, inp)          \* the parser leaves the caller's list alone
   /\ tgt' = 0 /\ edits' = edits
   /\ pending' = <<>> /\ fails' = fails

\* an aborted parse: objects were created for the lines read so far, no document is returned
ParseFails(inp) ==
   /\ fails < MaxFails /\ fails' = fails + 1
   /\ LET r == Alloc(inp, 1, [cells |-> <<>>, store |-> store, memo |-> memo])
      IN /\ store' = r.store /\ memo' = r.memo
         /\ pending' = r.cells
   /\ tgt' = 0
   /\ UNCHANGED <<docs, caller, edits>>

CallerMutates(d, i) ==
   /\ edits < MaxEdits /\ edits' = edits + 1
   /\ store' = [store EXCEPT ![docs[d].cells[i]] = Edited]
   /\ docs' = [docs EXCEPT ![d].edited = TRUE]
   /\ tgt' = d
   /\ UNCHANGED <<memo, caller, pending, fails>>

CallerRemoves(d, i) ==
   /\ edits < MaxEdits /\ edits' = edits + 1
   /\ docs' = [docs EXCEPT ![d].edited = TRUE,
                           ![d].cells = SubSeq(@, 1, i - 1) \o SubSeq(@, i + 1, Len(@))]
   /\ tgt' = d
   /\ UNCHANGED <<store, memo, caller, pending, fails>>

Next == \/ \E inp \in Inputs : Parse(inp) \/ ParseFails(inp)
        \/ \E d \in 1..Len(docs) : \E i \in 1..Len(docs[d].cells) : CallerMutates(d, i) \/ CallerRemoves(d, i)
Spec == Init /\ [][Next]_vars

----------------------------------------------------------------------------
UnmodifiedLossless == \A d \in 1..Len(docs) : ~docs[d].edited => DumpOf(docs[d], store) = docs[d].input
InputUntouched     == \A d \in 1..Len(docs) : caller[d] = docs[d].input
\* objects are never shared between live documents (what makes the two properties hold)
NoSharing == \A d, e \in 1..Len(docs) : \A i \in 1..Len(docs[d].cells), j \in 1..Len(docs[e].cells) :
                docs[d].cells[i] = docs[e].cells[j] => (d = e /\ i = j)
Isolation == [][\A d \in 1..Len(docs) : d # tgt' => DumpOf(docs'[d], store') = DumpOf(docs[d], store)]_vars
=============================================================================
