CONSTANTS
  Alphabet = {65, 61, 34, 92, 32, 47, 160}
  MaxLen = 9
  Defects = {}
  Emit = TRUE
SPECIFICATION Spec
INVARIANT TypeOK
INVARIANT RunAgrees
INVARIANT RoundTrip
INVARIANT EndsClean
INVARIANT NamesValid
INVARIANT Lossless
INVARIANT Scalable
INVARIANT Compositional
INVARIANT ResetsBetweenItems
INVARIANT OutIsAppendOnly
INVARIANT EmitCase
CHECK_DEADLOCK FALSE
