---------------------------- MODULE MC_LookAhead ----------------------------
(***************************************************************************)
(* X06 -- script families for model checking LookAheadBuf.                 *)
(*   short: every class sequence of <= ShortLen items, position-tagged,    *)
(*          with at most one raising entry (-1) at any place, and the      *)
(*          tails: none / end signal then one more item (resuming source)  *)
(*          / end signal then an exception (source that raises when asked  *)
(*          again);                                                        *)
(*   long:  for L in LongLens all-class-0 sequences with at most one       *)
(*          class-1 item (where peek_find / takewhile stop), so that the   *)
(*          chunked read-ahead (Chunk = 5) is crossed several times; tails *)
(*          none / resuming; LongErr adds one raising entry in the middle. *)
(***************************************************************************)
EXTENDS LookAheadBuf

CONSTANTS Classes, ShortLen, LongLens, LongErr

Tag(cs)     == [i \in 1..Len(cs) |-> i * NC + cs[i]]
ClassSeqs   == UNION { [1..l -> Classes] : l \in 0..ShortLen }
WithErr(s)  == {s} \cup { SubSeq(s, 1, i) \o <<-1>> \o SubSeq(s, i + 1, Len(s)) : i \in 0..Len(s) }
ResumeItem(s) == (Len(s) + 1) * NC + 1
Tails(s)    == { <<>>, <<0, ResumeItem(s)>>, <<0, -1>> }
Short       == UNION { UNION { { t \o tl : tl \in Tails(s) } : t \in WithErr(Tag(s)) } : s \in ClassSeqs }
Marked(L, m) == [i \in 1..L |-> IF i = m THEN 1 ELSE 0]
Long        == UNION { UNION { LET s == Tag(Marked(L, m))
                               IN { s, s \o <<0, ResumeItem(s)>> }
                                  \cup (IF LongErr THEN { SubSeq(s, 1, L \div 2) \o <<-1>> \o SubSeq(s, (L \div 2) + 1, L) } ELSE {})
                               : m \in 0..L } : L \in LongLens }
MCScripts   == Short \cup Long
\* (negative numbers and nested sets cannot be written in a .cfg file)
LimsNone    == {-1}
LimsSmall   == {-1, 0, 1, 2}
LimsQuick   == {-1, 0, 1, 2, 6}
LimsThree   == {-1, 1, 6}
LimsFull    == {-1, 0, 1, 2, 5, 6, 7, 11}
LimsSix     == {-1, 0, 1, 2, 6, 7}
PredsTwo    == {{1}, {0, 1}}
PredsThree  == {{}, {1}, {0, 1}}
PredsFour   == {{}, {0}, {1}, {0, 1}}
=============================================================================
