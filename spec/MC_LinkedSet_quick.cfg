CONSTANTS
  Names = {1, 2, 3}
  Spells = {"U", "L"}
  Values = {"1"}
  Emit = FALSE
  N = 4
  LKeyFns <- QuickKeyFns
  LFaultModes <- QuickFaultModes
SPECIFICATION LSpec
INVARIANT TypeOK
INVARIANT NamesUnique
INVARIANT Refines
INVARIANT BackOK
INVARIANT SizeOK
INVARIANT EndsOK
INVARIANT TableOK
INVARIANT LinksOK
PROPERTY ErrAtomic
PROPERTY ImplErrAtomic
PROPERTY SpellingKept
PROPERTY SameResult
VIEW ImplView
