---------------------------- MODULE WatchFileObjs ----------------------------
(***************************************************************************)
(* X02 (extra) -- no state between calls and no sharing between objects.   *)
(*                                                                         *)
(* STATEMENT.  Every WatchFile returned by WatchFile() / from_lines and    *)
(* every Watch owns its lists: whatever was constructed, parsed or         *)
(* modified before, a call changes the object it is applied to and no      *)
(* other live object, and parsing a text again gives the same result as    *)
(* the first time.                                                         *)
(*                                                                         *)
(* Reference: hvals, the live objects as values, updated with the          *)
(* operators of WatchFileOps.  Implementation layer: a heap -- hlists (the *)
(* list objects; an `entries` list holds entry ids), hents (entry id ->    *)
(* [u, ol]), hobjs (object -> [ol, el]) -- where every constructor         *)
(* allocates fresh lists.  Lists 1..3 stand for the objects a careless     *)
(* implementation would share (a mutable default argument of               *)
(* WatchFile.__init__ / Watch.__init__); the design never hands them out.  *)
(* HeapAgrees: dereferencing the heap gives hvals (refinement);            *)
(* Unshared: no list is reachable from two owners.                         *)
(* Negative controls (each tried, each makes TLC report HeapAgrees):       *)
(*   SharedDefault = TRUE       options=[] / entries=[] as default values  *)
(*   SharedWatchDefault = TRUE  Watch(opts=[]) as default value            *)
(*   ParseCached = TRUE         from_lines memoised by its input           *)
(***************************************************************************)
EXTENDS WatchFileOps, FiniteSets, TLC

CONSTANTS MaxObjs, MaxOps, SharedDefault, SharedWatchDefault, ParseCached

VARIABLES hvals, hobjs, hents, hlists, hcache, hops
hvars == <<hvals, hobjs, hents, hlists, hcache, hops>>

HE(u, o) == [url |-> u, mp |-> <<>>, vr |-> <<>>, sc |-> <<>>, o |-> o]
\* what the two texts of the model parse to
PV(k) == IF k = 1 THEN OVal(4, <<5>>, <<HE(1, <<6>>)>>) ELSE OVal(3, <<>>, <<HE(2, <<>>)>>)

HInit == /\ hvals = <<>> /\ hobjs = <<>> /\ hents = <<>>
         /\ hlists = << <<>>, <<>>, <<>> >>
         /\ hcache = [k \in 1..2 |-> 0] /\ hops = 0

Fresh(n) == Len(hlists) + n

\* WatchFile()
New == /\ Len(hobjs) < MaxObjs /\ hops < MaxOps
       /\ hvals' = ONew(hvals, ODefault)
       /\ IF SharedDefault
          THEN hobjs' = Append(hobjs, [ver |-> 4, ol |-> 1, el |-> 2]) /\ hlists' = hlists
          ELSE hobjs' = Append(hobjs, [ver |-> 4, ol |-> Fresh(1), el |-> Fresh(2)]) /\ hlists' = hlists \o << <<>>, <<>> >>
       /\ hops' = hops + 1 /\ UNCHANGED <<hents, hcache>>

\* WatchFile.from_lines(text k): one global option, one entry
ParseText(k) ==
   /\ Len(hobjs) < MaxObjs /\ hops < MaxOps
   /\ hvals' = ONew(hvals, PV(k))
   /\ IF ParseCached /\ hcache[k] # 0
      THEN hobjs' = Append(hobjs, hobjs[hcache[k]]) /\ UNCHANGED <<hents, hlists, hcache>>
      ELSE /\ hents' = Append(hents, [u |-> PV(k).es[1].url, ol |-> Fresh(3)])
           /\ hlists' = hlists \o <<PV(k).o, <<Len(hents) + 1>>, PV(k).es[1].o>>
           /\ hobjs' = Append(hobjs, [ver |-> PV(k).ver, ol |-> Fresh(1), el |-> Fresh(2)])
           /\ hcache' = [hcache EXCEPT ![k] = Len(hobjs) + 1]
   /\ hops' = hops + 1

\* wf.options.append(x)
AddOpt(t) == /\ hops < MaxOps
             /\ hvals' = OAddOpt(hvals, t, 7)
             /\ hlists' = [hlists EXCEPT ![hobjs[t].ol] = Append(@, 7)]
             /\ hops' = hops + 1 /\ UNCHANGED <<hobjs, hents, hcache>>

\* wf.entries.append(Watch(url))
AddEnt(t) == /\ hops < MaxOps /\ Len(hents) < 4
             /\ hvals' = OAddEnt(hvals, t, HE(3, <<>>))
             /\ IF SharedWatchDefault
                THEN /\ hents' = Append(hents, [u |-> 3, ol |-> 3])
                     /\ hlists' = [hlists EXCEPT ![hobjs[t].el] = Append(@, Len(hents) + 1)]
                ELSE /\ hents' = Append(hents, [u |-> 3, ol |-> Fresh(1)])
                     /\ hlists' = [hlists EXCEPT ![hobjs[t].el] = Append(@, Len(hents) + 1)] \o << <<>> >>
             /\ hops' = hops + 1 /\ UNCHANGED <<hobjs, hcache>>

\* wf.entries[i].options.append(x)
EntOpt(t, i) == /\ hops < MaxOps /\ i <= Len(hvals[t].es)
                /\ hvals' = OEntOpt(hvals, t, i, 8)
                /\ hlists' = [hlists EXCEPT ![hents[hlists[hobjs[t].el][i]].ol] = Append(@, 8)]
                /\ hops' = hops + 1 /\ UNCHANGED <<hobjs, hents, hcache>>

HNext == \/ New \/ \E k \in 1..2 : ParseText(k)
         \/ \E t \in 1..Len(hobjs) : AddOpt(t) \/ AddEnt(t) \/ \E i \in 1..2 : EntOpt(t, i)
HSpec == HInit /\ [][HNext]_hvars

Deref(t) == LET el == hlists[hobjs[t].el] IN
   OVal(hobjs[t].ver, hlists[hobjs[t].ol],
        [j \in 1..Len(el) |-> HE(hents[el[j]].u, hlists[hents[el[j]].ol])])

\* the heap shows what the reference says: nothing changes except the object a call is applied to
HeapAgrees == Len(hobjs) = Len(hvals) /\ \A t \in 1..Len(hobjs) : Deref(t) = hvals[t]
\* ownership: the lists of distinct objects / entries are distinct, the reserved lists are never used
Owners == [t \in 1..Len(hobjs) |-> {hobjs[t].ol, hobjs[t].el}]
Unshared == /\ \A t \in 1..Len(hobjs) : hobjs[t].ol > 3 /\ hobjs[t].el > 3 /\ hobjs[t].ol # hobjs[t].el
            /\ \A t, u \in 1..Len(hobjs) : t # u => Owners[t] \cap Owners[u] = {}
            /\ \A a, b \in 1..Len(hents) : a # b => hents[a].ol # hents[b].ol
            /\ \A a \in 1..Len(hents) : hents[a].ol > 3 /\ \A t \in 1..Len(hobjs) : hents[a].ol \notin Owners[t]
=============================================================================
