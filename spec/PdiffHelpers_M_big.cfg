CONSTANTS
  PhWhich = "M"
  PhEmit = TRUE
  HMode = "std"
  HMaxChars = 2
  HMaxCls = 3
  HMaxChunks = 3
  PMode = "std"
  PMaxLen = 2
  PMaxIdx = 3
  PMaxHunks = 2
  MMode = "std"
  MRanks = 4
  MMaxLen = 2
  MMaxArgs = 3
  GMode = "std"
  GMaxLen = 3
  GMaxMembers = 3
SPECIFICATION PhSpec
CHECK_DEADLOCK FALSE
INVARIANT PhLaws
