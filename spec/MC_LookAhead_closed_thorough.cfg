CONSTANTS
  NC = 8
  Chunk = 5
  Classes = {0, 1}
  Scripts <- MCScripts
  ShortLen = 3
  LongLens = {6, 11, 16}
  LongErr = TRUE
  ArgK = {1, 2, 6}
  Lims <- LimsSmall
  Preds <- PredsThree
  MaxGens = 0
  Latch = TRUE
  UseClosed = FALSE
  Bug = "none"
  Emit = FALSE
SPECIFICATION ISpec
INVARIANT ClosedOK
VIEW IView
