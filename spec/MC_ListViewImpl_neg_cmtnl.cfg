CONSTANTS
  Modes = {"sp", "cm"}
  MaxW = 2
  MaxT = 7
  MaxC = 1
  Dups = TRUE
  MaxEdits = 2
  Extras = TRUE
  Emit = FALSE
  SliceK = 1
  SliceR = 0
  InnerAlways = FALSE
  RemoveNodeOnly = FALSE
  LeakComments = FALSE
  NoContinuation = FALSE
  DropNlBeforeCmt = TRUE
SPECIFICATION Spec
INVARIANT StillValid
CHECK_DEADLOCK FALSE
