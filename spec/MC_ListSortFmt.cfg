CONSTANTS
  MaxLen = 5
  MaxInp = 6
  BadShip = "no"
SPECIFICATION Spec
INVARIANT EmitCase
CHECK_DEADLOCK FALSE
INVARIANT AcceptedValid
