----------------------------- MODULE Deb822Opts -----------------------------
(***************************************************************************)
(* X16 (extra) -- the reading and writing OPTIONS and the mapping helpers   *)
(* of debian.deb822 that the property checks treat as fixed:                *)
(*   Deb822(sequence, fields, encoding, strict), Cls.iter_paragraphs(seq,   *)
(*   fields, use_apt_pkg, shared_storage, encoding, strict) with the        *)
(*   defaults of Packages / Sources, split_gpg_and_payload (three parts),   *)
(*   gpg_stripped_paragraph, dump(fd, encoding, text_mode), str / bytes,    *)
(*   get_as_string, get / setdefault / pop / in / keys / values / items,    *)
(*   == and != of paragraphs, Changes.get_pool_path, get_version /          *)
(*   set_version, Packages.source / source_version.                         *)
(*                                                                         *)
(* STATEMENT (formulated for this check from the docstrings).               *)
(*  R. Reading.  The paragraphs of a document are its maximal blocks of     *)
(*     non-blank lines; a white-space-only line is a blank line exactly     *)
(*     when strict['whitespace-separates-paragraphs'] is true (default      *)
(*     TRUE; Packages / Sources.iter_paragraphs default FALSE when strict   *)
(*     is None or empty); with FALSE such a line of >= 2 characters is a    *)
(*     continuation line and one of 1 character is ignored.  iter_          *)
(*     paragraphs(seq, fields=F) yields, in order, every paragraph that     *)
(*     has a field named in F restricted to those fields -- order and       *)
(*     spelling of the INPUT kept, names compared case-insensitively,       *)
(*     names of F that do not occur ignored, the order of F irrelevant,     *)
(*     continuation lines of dropped fields dropped with them -- i.e. it    *)
(*     is the restriction of what fields=None yields; Deb822(seq, fields=F) *)
(*     is the restriction of the FIRST paragraph (empty when there is       *)
(*     none).  use_apt_pkg and shared_storage never change the result.      *)
(*     split_gpg_and_payload returns (gpg_pre_lines, lines, gpg_post_lines) *)
(*     as lists of bytes without line ends: for unsigned input ([], the     *)
(*     lines of the first block, []), for a clearsigned paragraph the       *)
(*     BEGIN line + armor headers, the payload lines, the signature block   *)
(*     from its BEGIN line to its END line; EOFError when there is no       *)
(*     non-blank line; gpg_stripped_paragraph is its middle part; a         *)
(*     paragraph parsed from the signed form equals the one parsed from     *)
(*     the payload.                                                         *)
(*  W. Writing.  All renderings of a paragraph are ONE text T(p) = for      *)
(*     every field in order 'Name:' + (' ' unless the value is empty or     *)
(*     starts with a newline) + value + newline: dump() / dump(None, any    *)
(*     encoding, any text_mode) and str() return T; dump(fd, text_mode=     *)
(*     True) writes T (str) to fd, dump(fd) writes T encoded with the       *)
(*     encoding argument, or with the encoding the object was created with  *)
(*     when that is None, both return None, append to fd and leave it open; *)
(*     bytes() is T in the object's encoding; UnicodeEncodeError when the   *)
(*     encoding cannot represent T.  get_as_string(k) = str(self[k]).       *)
(*  M. Helpers.  get / setdefault / pop / in / keys / values / items are    *)
(*     those of an ordered, case-insensitive, case-preserving mapping:      *)
(*     get never changes anything and returns the default OBJECT for an     *)
(*     absent key; setdefault returns the stored value, or appends the      *)
(*     default (validated like an assignment: ValueError changes nothing)   *)
(*     and returns it; pop removes.  p == q holds iff both have the same    *)
(*     fields with equal values, whatever the order; != is its negation;    *)
(*     comparing with something that is not a mapping is False / True and   *)
(*     never raises.  A query never changes any live object.                *)
(*  A. Accessors.  Changes.get_pool_path() = pool/<component>/<prefix>/     *)
(*     <source> with component = the part before '/' of the section of the  *)
(*     FIRST Files entry ('main' without '/'), prefix = the first four      *)
(*     characters of a source name starting with 'lib', else the first;     *)
(*     get_version() = Version(self['Version']), set_version(v) stores      *)
(*     str(v) under Version in place; Packages.source / source_version are  *)
(*     taken from 'Source: name (version)' and fall back on Package /       *)
(*     Version.                                                             *)
(* Unspecified (executed, any outcome): == between paragraphs that spell    *)
(* a common field differently; documents with continuation lines that       *)
(* follow no field, blocks without any field, duplicate fields, stray PGP   *)
(* lines, several paragraphs inside one signature; lines with trailing      *)
(* white space handed to split_gpg_and_payload; strict dictionaries with    *)
(* unknown keys given to Packages / Sources; a section with two '/', a      *)
(* source named exactly 'lib' or containing a blank; fields= with a         *)
(* mapping as sequence; dump(fd) when fd cannot take what text_mode says.   *)
(*                                                                         *)
(* MODEL.  A document is a sequence of LINES [c, n, s, t]: class c,         *)
(* field name n (a number), spelling s of the name as written, token t      *)
(* (the trimmed data of a field line, the whole text of a continuation /    *)
(* white-space line).  Classes: F 'Name: data', M 'Name:', C continuation,  *)
(* B empty, W1 / W2 white space only (1 / >= 2 characters), # comment,      *)
(* PB / PH / PS / PG / PE clearsign armor.  A paragraph object is           *)
(* [cls, enc, m]: m = sequence of [n, s, v], v = the value as the           *)
(* sequence of its lines' tokens (first = "" for an empty first line).      *)
(* split_gpg_and_payload, _internal_parser and the iteration are LEFT       *)
(* FOLDS over the lines (one branch of the fold step per branch of the      *)
(* code's loops).  Every public call on live objects is an instance of the  *)
(* pure operator OCall.                                                     *)
(*                                                                         *)
(* Defect switches (all FALSE = the statement):                             *)
(*   exact   fields= compares the spelling exactly       (AS BUILT)         *)
(*   stop    the iteration ends at the first paragraph the filter leaves    *)
(*           empty, the rest of the document is lost     (AS BUILT)         *)
(*   eqraise == / != with a non-mapping raises TypeError, or is True for an *)
(*           empty paragraph and an empty sequence       (AS BUILT)         *)
(*   keepcont an unwanted field line does not end the value before it       *)
(*   wsflip  the default of whitespace-separates-paragraphs is the same     *)
(*           for every class                                                *)
(*   objenc  dump(fd) without encoding always writes UTF-8                  *)
(*   sdmove  setdefault on a present key re-appends it                      *)
(* The first three are the behaviour of the pinned code (findings, KNOWN    *)
(* in harness/props/x16.py): EDGE / CASE lines carry the statement's        *)
(* result and the as-built result.  The other four are negative controls.   *)
(***************************************************************************)
EXTENDS Naturals, Sequences, FiniteSets, SequencesExt, TLC, Json

Flags(exact, stop, eqraise, keepcont, wsflip, objenc, sdmove) ==
    [exact |-> exact, stop |-> stop, eqraise |-> eqraise, keepcont |-> keepcont, wsflip |-> wsflip,
     objenc |-> objenc, sdmove |-> sdmove]
StmtFlags  == Flags(FALSE, FALSE, FALSE, FALSE, FALSE, FALSE, FALSE)
BuiltFlags == Flags(TRUE, TRUE, TRUE, FALSE, FALSE, FALSE, FALSE)

Chk(P) == P = TRUE          \* pure checks inside actions must not branch

----------------------------------------------------------------------------
(* R. the reader *)

Empty == ""                                     \* token of an empty first line
Ln(c, n, s, t) == [c |-> c, n |-> n, s |-> s, t |-> t]
IsWsC(c)     == c \in {"W1", "W2"}
IsBlank(c, ws) == c = "B" \/ (ws /\ IsWsC(c))

\* fields=...: want = [all |-> TRUE, l |-> <<>>] (None) or [all |-> FALSE, l |-> <<[n, s], ...>>]
WantAll     == [all |-> TRUE, l |-> <<>>]
WantOf(l)   == [all |-> FALSE, l |-> l]
Wanted(n, s, want, fl) ==
    want.all \/ \E i \in 1..Len(want.l) : want.l[i].n = n /\ (fl.exact => want.l[i].s = s)

\* ---- split_gpg_and_payload: one step of its loop.  skipc: the caller is the parser, which has
\*      removed the comment lines (_skip_useless_lines) before
SInit == [stop |-> FALSE, first |-> TRUE, gst |-> "SAFE", pre |-> <<>>, pay |-> <<>>, post |-> <<>>, k |-> 0]

SStep(st, ln, ws, skipc) ==
    IF st.stop THEN st
    ELSE LET c  == ln.c
             s1 == [st EXCEPT !.k = @ + 1]
         IN IF skipc /\ c = "#" THEN s1
            ELSE IF st.first /\ (c = "B" \/ IsWsC(c)) THEN s1                       \* initial blank lines
            ELSE LET s2 == [s1 EXCEPT !.first = FALSE] IN
                 IF c = "PE" THEN [s2 EXCEPT !.post = Append(@, ln), !.stop = TRUE]
                 ELSE IF c \in {"PB", "PS"} THEN
                      LET s3 == [s2 EXCEPT !.gst = IF c = "PB" THEN "MSG" ELSE "SIG"] IN
                      IF st.pay = <<>> THEN [s3 EXCEPT !.pre = Append(@, ln)]
                      ELSE [s3 EXCEPT !.post = Append(@, ln)]
                 ELSE IF st.gst = "SAFE" THEN
                      IF ~IsBlank(c, ws) THEN [s2 EXCEPT !.pay = Append(@, ln)]
                      ELSE IF st.pre = <<>> THEN [s2 EXCEPT !.stop = TRUE]          \* unsigned: the paragraph ends
                      ELSE s2                                                       \* blank line inside a signed body
                 ELSE IF st.gst = "MSG" THEN
                      IF IsBlank(c, ws) THEN [s2 EXCEPT !.gst = "SAFE"] ELSE [s2 EXCEPT !.pre = Append(@, ln)]
                 ELSE [s2 EXCEPT !.post = Append(@, ln)]                            \* signature block

SplitFold(lines, ws, skipc) == FoldLeft(LAMBDA st, ln : SStep(st, ln, ws, skipc), SInit, lines)

\* the public static method: comments are ordinary lines there
Split(lines, ws) == LET st == SplitFold(lines, ws, FALSE) IN
    IF st.pay = <<>> THEN [t |-> "err", x |-> "EOFError"]
    ELSE [t |-> "split", x |-> [pre |-> st.pre, pay |-> st.pay, post |-> st.post]]

\* ---- _internal_parser over the payload lines
MHas(m, n)  == \E i \in 1..Len(m) : m[i].n = n
MIdx(m, n)  == CHOOSE i \in 1..Len(m) : m[i].n = n
MGet(m, n)  == m[MIdx(m, n)]
MRm(m, n)   == SelectSeq(m, LAMBDA x : x.n # n)
MPut(m, n, s, v) == IF MHas(m, n) THEN [m EXCEPT ![MIdx(m, n)].v = v]
                    ELSE Append(m, [n |-> n, s |-> s, v |-> v])
MUnique(m)  == \A i, j \in 1..Len(m) : m[i].n = m[j].n => i = j

AInit == [fields |-> <<>>, open |-> FALSE, n |-> 0, s |-> "", content |-> <<>>]
AFlush(a) == IF a.open THEN MPut(a.fields, a.n, a.s, a.content) ELSE a.fields
AStep(a, ln, want, fl) ==
    IF ln.c \in {"F", "M"} THEN
        IF Wanted(ln.n, ln.s, want, fl)
        THEN [fields |-> AFlush(a), open |-> TRUE, n |-> ln.n, s |-> ln.s,
              content |-> <<IF ln.c = "F" THEN ln.t ELSE Empty>>]
        ELSE IF fl.keepcont THEN a
        ELSE [fields |-> AFlush(a), open |-> FALSE, n |-> 0, s |-> "", content |-> <<>>]
    ELSE IF ln.c \in {"C", "W2"} THEN (IF a.open THEN [a EXCEPT !.content = Append(@, ln.t)] ELSE a)
    ELSE a                                          \* W1, comments, anything else: no regular expression matches
Assemble(pay, want, fl) == AFlush(FoldLeft(LAMBDA a, ln : AStep(a, ln, want, fl), AInit, pay))

\* ---- Deb822(sequence, fields, strict): the first paragraph
Ctor(lines, ws, want, fl) == Assemble(SplitFold(lines, ws, TRUE).pay, want, fl)

\* ---- iter_paragraphs: a new reader per paragraph on the same iterator.  One fold over the document:
\*      blocks = the payloads of the successive readers
IInit == [sp |-> SInit, blocks |-> <<>>]
IStep(it, ln, ws) ==
    LET sp == SStep(it.sp, ln, ws, TRUE) IN
    IF sp.stop THEN [sp |-> SInit, blocks |-> Append(it.blocks, sp.pay)] ELSE [it EXCEPT !.sp = sp]
Blocks(lines, ws) == LET it == FoldLeft(LAMBDA i, ln : IStep(i, ln, ws), IInit, lines) IN
                     IF it.sp.pay = <<>> THEN it.blocks ELSE Append(it.blocks, it.sp.pay)
\* the generator stops at the first empty object (end of input); with the switch "stop" also at a
\* paragraph the filter left empty
TakeWhileNonEmpty(ps) ==
    LET bad == {i \in 1..Len(ps) : ps[i] = <<>>} IN
    IF bad = {} THEN ps ELSE SubSeq(ps, 1, (CHOOSE i \in bad : \A j \in bad : i <= j) - 1)
Iter(lines, ws, want, fl) ==
    LET bs  == Blocks(lines, ws)
        all == [i \in 1..Len(bs) |-> Assemble(bs[i], WantAll, fl)]
        cut == TakeWhileNonEmpty(all)                       \* a block without any field ends the iteration
        ps  == [i \in 1..Len(cut) |-> Assemble(bs[i], want, fl)]
    IN IF fl.stop THEN TakeWhileNonEmpty(ps) ELSE SelectSeq(ps, LAMBDA p : p # <<>>)

\* restriction of a parsed paragraph (the reference for the filter)
KeepOnly(m, want) == SelectSeq(m, LAMBDA x : Wanted(x.n, x.s, want, StmtFlags))

\* ---- the strictness flag in force.  arg: "none" (None / omitted), "empty" ({}), "T", "F", "other"
\*      (a dictionary without the key); cls: "plain" (Deb822 and every class that inherits its
\*      iter_paragraphs) or "lenient" (Packages / Sources); api: "iter" or "ctor"
EffWs(cls, api, arg, fl) ==
    IF arg = "T" THEN TRUE
    ELSE IF arg = "F" THEN FALSE
    ELSE IF cls = "lenient" /\ api = "iter" /\ arg \in {"none", "empty"} THEN fl.wsflip
    ELSE TRUE

\* ---- well-formed documents (the domain of the reading statement)
\* every C / W2-as-continuation follows a field (comments and W1 in between allowed), every block has a
\* field, no name twice in a block, no armor lines
PlainDoc(lines) == \A i \in 1..Len(lines) : lines[i].c \in {"F", "M", "C", "B", "W1", "W2", "#"}
DomStep(d, ln, ws) ==
    IF ln.c = "#" THEN d
    ELSE IF IsBlank(ln.c, ws) THEN [d EXCEPT !.ok = d.ok /\ (d.inb => d.nf > 0), !.inb = FALSE, !.nf = 0, !.seen = {}]
    ELSE IF ln.c \in {"F", "M"} THEN [d EXCEPT !.ok = d.ok /\ ln.n \notin d.seen, !.inb = TRUE, !.nf = d.nf + 1,
                                                !.seen = d.seen \cup {ln.n}]
    ELSE IF ln.c = "W1" THEN [d EXCEPT !.ok = d.ok /\ d.inb]       \* (ws = FALSE) only inside a block
    ELSE [d EXCEPT !.ok = d.ok /\ d.inb /\ d.nf > 0]               \* C, W2 (ws = FALSE)
InDomain(lines, ws) ==
    /\ PlainDoc(lines)
    /\ LET d == FoldLeft(LAMBDA x, ln : DomStep(x, ln, ws), [ok |-> TRUE, inb |-> FALSE, nf |-> 0, seen |-> {}], lines)
       IN d.ok /\ (d.inb => d.nf > 0)

\* ---- clearsign armor around one paragraph
PBLn == Ln("PB", 0, "", "pb")
PSLn == Ln("PS", 0, "", "ps")
PELn == Ln("PE", 0, "", "pe")
BLn  == Ln("B", 0, "", "")
HdrLn(i) == Ln("PH", 0, "", IF i = 1 THEN "h1" ELSE "h2")
SigLn(i) == Ln("PG", 0, "", IF i = 1 THEN "g1" ELSE "g2")
\* nh armor headers, bl: a blank line between payload and signature, sb: a blank line after the BEGIN
\* of the signature, ng signature lines
Armor(par, nh, bl, sb, ng) ==
    <<PBLn>> \o [i \in 1..nh |-> HdrLn(i)] \o <<BLn>> \o par \o (IF bl THEN <<BLn>> ELSE <<>>)
    \o <<PSLn>> \o (IF sb THEN <<BLn>> ELSE <<>>) \o [i \in 1..ng |-> SigLn(i)] \o <<PELn>>
ArmorPre(nh)      == <<PBLn>> \o [i \in 1..nh |-> HdrLn(i)]
ArmorPost(sb, ng) == <<PSLn>> \o (IF sb THEN <<BLn>> ELSE <<>>) \o [i \in 1..ng |-> SigLn(i)] \o <<PELn>>

----------------------------------------------------------------------------
(* W. / M. calls on live paragraph objects *)

R(t, x)  == [t |-> t, x |-> x]
ROk      == R("ok", "")
Err(k)   == R("err", k)
RBool(b) == R("bool", IF b THEN "true" ELSE "false")
REq(r1, r2) == r1.t = r2.t /\ r1.x = r2.x

\* an assignment accepts a value iff it does not end in a newline and has no empty line after the first
\* (continuation lines start with white space by construction of the payloads)
Valid(v) == \A i \in 2..Len(v) : v[i] # Empty

\* the one text all renderings agree on
Glue(v)  == IF v[1] = Empty THEN "" ELSE " "
DumpT(m) == [i \in 1..Len(m) |-> [s |-> m[i].s, v |-> m[i].v, g |-> Glue(m[i].v)]]

\* character classes of payloads: "a" ASCII, "l" Latin-1, "w" beyond Latin-1
CanEnc(enc, cl) == enc = "utf-8" \/ (enc = "latin-1" /\ cl \in {"a", "l"}) \/ (enc = "ascii" /\ cl = "a")
Encodable(e, m, enc) == \A i \in 1..Len(m) : /\ CanEnc(enc, e.scl[m[i].s])
                                             /\ \A j \in 1..Len(m[i].v) : CanEnc(enc, e.tcl[m[i].v[j]])

\* equality of two mappings; spelled: some common name is spelled differently (unspecified)
SameFields(m1, m2) == /\ \A i \in 1..Len(m1) : MHas(m2, m1[i].n) /\ MGet(m2, m1[i].n).v = m1[i].v
                      /\ \A i \in 1..Len(m2) : MHas(m1, m2[i].n)
Respelled(m1, m2)  == \E i \in 1..Len(m1) : MHas(m2, m1[i].n) /\ MGet(m2, m1[i].n).s # m1[i].s

\* a call: every attribute always present (dummies 0 / "" / <<>>)
\*   o object, n s key (name, spelling written by the caller), v value, d "omit" / "given" (default argument),
\*   o2 second object, k kind of the right operand of == / form of dump, enc encoding argument
C(op, o, n, s, v, d, o2, k, enc) == [op |-> op, o |-> o, n |-> n, s |-> s, v |-> v, d |-> d, o2 |-> o2, k |-> k, enc |-> enc]
NoCall == C("-", 0, 0, "", <<>>, "", 0, "", "")
Queries == {"get", "has", "gas", "getitem", "keys", "values", "items", "len", "eq", "ne", "dump", "str", "bytes"}

\* outcome: objects afterwards, result, any = the result is unspecified
Out(os, r)    == [os |-> os, r |-> r, any |-> FALSE]
OutAny(os)    == [os |-> os, r |-> R("any", ""), any |-> TRUE]

EqOutcome(m1, operand, k, fl) ==      \* -> result of ==  ("true" / "false" / "TypeError" / "any")
    IF k \in {"obj", "dict"} THEN
        IF Respelled(m1, operand) THEN "any"
        ELSE IF SameFields(m1, operand) THEN "true" ELSE "false"
    ELSE IF ~fl.eqraise THEN "false"
    ELSE IF k \in {"none", "int"} THEN "TypeError"
    ELSE IF k = "emptyseq" THEN (IF m1 = <<>> THEN "true" ELSE "false")
    ELSE (IF m1 = <<>> THEN "true" ELSE "TypeError")            \* "keyseq": list(p) itself

OCall(e, os, fl, c) ==
    LET ob == os[c.o]
        m  == ob.m
        upd(m2) == [os EXCEPT ![c.o].m = m2]
    IN CASE c.op = "get" ->
              Out(os, IF MHas(m, c.n) THEN R("val", MGet(m, c.n).v)
                      ELSE IF c.d = "omit" THEN R("none", "") ELSE R("dflt", ""))
         [] c.op \in {"gas", "getitem"} ->
              Out(os, IF MHas(m, c.n) THEN R("val", MGet(m, c.n).v) ELSE Err("KeyError"))
         [] c.op = "has"  -> Out(os, RBool(MHas(m, c.n)))
         [] c.op = "setdefault" ->
              IF MHas(m, c.n)
              THEN Out(IF fl.sdmove THEN upd(Append(MRm(m, c.n), MGet(m, c.n))) ELSE os, R("val", MGet(m, c.n).v))
              ELSE IF Valid(c.v) THEN Out(upd(Append(m, [n |-> c.n, s |-> c.s, v |-> c.v])), R("val", c.v))
              ELSE Out(os, Err("ValueError"))
         [] c.op = "pop" ->
              IF MHas(m, c.n) THEN Out(upd(MRm(m, c.n)), R("val", MGet(m, c.n).v))
              ELSE Out(os, IF c.d = "omit" THEN Err("KeyError") ELSE R("dflt", ""))
         [] c.op = "set" -> IF Valid(c.v) THEN Out(upd(MPut(m, c.n, c.s, c.v)), ROk) ELSE Out(os, Err("ValueError"))
         [] c.op = "del" -> IF MHas(m, c.n) THEN Out(upd(MRm(m, c.n)), ROk) ELSE Out(os, Err("KeyError"))
         [] c.op = "keys"   -> Out(os, R("keys", [i \in 1..Len(m) |-> m[i].s]))
         [] c.op = "values" -> Out(os, R("vals", [i \in 1..Len(m) |-> m[i].v]))
         [] c.op = "items"  -> Out(os, R("items", [i \in 1..Len(m) |-> [s |-> m[i].s, v |-> m[i].v]]))
         [] c.op = "len"    -> Out(os, R("len", Len(m)))
         [] c.op \in {"eq", "ne"} ->
              LET x == EqOutcome(m, IF c.k \in {"obj", "dict"} THEN os[c.o2].m ELSE <<>>, c.k, fl) IN
              IF x = "any" THEN OutAny(os)
              ELSE IF x = "TypeError" THEN Out(os, Err("TypeError"))
              ELSE Out(os, RBool((x = "true") = (c.op = "eq")))
         [] c.op = "dump" ->
              IF c.k = "ret" THEN Out(os, R("text", DumpT(m)))
              ELSE IF c.k = "fdt" THEN Out(os, R("wrote", [k |-> "t", enc |-> "", t |-> DumpT(m)]))
              ELSE LET enc == IF c.enc = "omit" THEN (IF fl.objenc THEN "utf-8" ELSE ob.enc) ELSE c.enc IN
                   IF Encodable(e, m, enc) THEN Out(os, R("wrote", [k |-> "b", enc |-> enc, t |-> DumpT(m)]))
                   ELSE Out(os, Err("UnicodeEncodeError"))
         [] c.op = "str"   -> Out(os, R("text", DumpT(m)))
         [] c.op = "bytes" -> IF Encodable(e, m, ob.enc) THEN Out(os, R("bytes", [enc |-> ob.enc, t |-> DumpT(m)]))
                              ELSE Out(os, Err("UnicodeEncodeError"))

----------------------------------------------------------------------------
(* A. accessors: decision tables over shapes *)

\* sec: "s" (no '/'), "c/s", "c/s/x" (unspecified); src: "lib+" (lib followed by more), "lib" (unspecified), "other"
PoolPath(sec, src) ==
    [comp |-> IF sec = "c/s" THEN "comp" ELSE "main",
     pre  |-> IF src \in {"lib+", "lib"} THEN 4 ELSE 1,
     any  |-> sec = "c/s/x" \/ src = "lib"]
\* Packages.source / source_version; srcf: "absent", "plain" ('Source: name'), "ver" ('Source: name (version)')
PkgSource(srcf) ==
    [name |-> IF srcf = "absent" THEN "Package" ELSE "SourceName",
     ver  |-> IF srcf = "ver" THEN "SourceVersion" ELSE "Version"]
=============================================================================
