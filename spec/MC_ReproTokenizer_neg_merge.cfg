CONSTANTS
  Classes = {"E", "W", "H", "C", "F1", "F1b", "F1a", "F1ba", "F0", "F0s", "X"}
  MaxLines = 3
  NarrowClasses = {}
  NarrowMaxLines = 0
  Emit = "none"
  MergeUnterminatedWs = TRUE
  DropFloatingComment = FALSE
SPECIFICATION Spec
INVARIANT TokenShape
CHECK_DEADLOCK FALSE
