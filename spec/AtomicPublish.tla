----------------------------- MODULE AtomicPublish -----------------------------
(***************************************************************************)
(* X18 -- debian.debian_support: replace_file(lines, local, encoding),     *)
(* download_gunzip_lines(remote) and download_file(remote, local) as step  *)
(* machines over the CONTENTS OF THE DIRECTORIES they touch, with fault    *)
(* transitions.                                                            *)
(*                                                                         *)
(* STATEMENT (docstrings: "Copies a gzipped remote file to the local       *)
(* system", "Downloads a file from a remote location and gunzips it.       *)
(* Returns the lines in the file"; update_file relies on replace_file for  *)
(* never corrupting the local copy).                                       *)
(*  * replace_file publishes atomically: at every moment the path `local`  *)
(*    names either what it named before the call (nothing, or the old file *)
(*    -- the same inode with its bytes) or the complete new content; after *)
(*    a call that returned it is the new content, after a call that raised *)
(*    -- because creating, writing, closing or renaming the new file       *)
(*    failed, because the iterable of lines raised, or because an item     *)
(*    cannot be encoded / is not a str -- it is untouched; whatever        *)
(*    happened, the directory of `local` contains afterwards exactly what  *)
(*    it contained before plus (after success) `local`: no temporary file  *)
(*    of the call survives.  A left-over `local + '.new'` of an earlier    *)
(*    crash never ends up in `local` and never makes the call fail;        *)
(*    whether it is removed is not specified (the code removes it as soon  *)
(*    as it gets as far as writing).                                       *)
(*  * download_gunzip_lines creates its temporary file in the temporary    *)
(*    directory only, removes it on every path (remote missing, not gzip,  *)
(*    truncated, undecodable, disk full) and never touches anything else.  *)
(*  * download_file = download_gunzip_lines(remote + '.gz') followed by     *)
(*    replace_file: a failed download leaves `local` untouched.            *)
(*  * A call raises exactly when one of the steps it reaches fails.        *)
(*                                                                         *)
(* MODEL.  Contents are classes: "absent", "old" (the file that was there),*)
(* "empty" (zero bytes), "part" (a strict, non-empty part of the new       *)
(* content), "new", "dir" (`local` is a directory: os.rename onto it fails  *)
(* by itself), "gz" (the download); stl = a left-over '.new' is there.     *)
(* State = <<loc, tmpn, tmpd>> = `local`, the writer's temporary file in   *)
(* the directory of local, the temporary file of the download; `ino`       *)
(* says whether `local` is still the original inode, `held` what a reader  *)
(* sees that opened `local` before the call.  The input record `ain` (entry *)
(* point, what is there, what is written, which step fails) is chosen in   *)
(* Init; one action per step of the code, in the code's order.             *)
(* ApBuffered = FALSE is the code at hand, step by step (closed model, the *)
(* emitted cases).  ApBuffered = TRUE (trace validation) widens it to what *)
(* the STATEMENT allows: which of the written data has reached the disk is *)
(* open; the download may do without a temporary file; the writer may use  *)
(* another temporary name and leave a stale '.new' alone or remove it at   *)
(* any step; a failing iterable / a directory in the way may be noticed    *)
(* before anything is created.  All invariants hold in both modes.         *)
(* ApMode switches in the defects used as negative controls:               *)
(*   inPlace      write straight into `local`              -> OldOrNew     *)
(*   renameEarly  rename before the data is flushed        -> OldOrNew     *)
(*   noCleanup    no removal of the '.new' file on errors  -> NoTempLeft   *)
(*   keepTmp      download temp removed on success only    -> NoTempLeft   *)
(*   swallow      an error of close() is swallowed         -> FaultRaises  *)
(***************************************************************************)
EXTENDS Integers, Sequences, FiniteSets, TLC, Json

CONSTANTS ApEntries,     \* subset of {"replace_file", "download_file", "download_gunzip_lines"}
          ApMode,        \* "std" or a defect (negative controls)
          ApMaxW,        \* at most this many items in `lines` (= write calls)
          ApBuffered,    \* TRUE: what of the written data has reached the disk is not determined (traces)
          ApEmit

VARIABLES apc,    \* control state
          ain,    \* input record
          loc, tmpn, tmpd,   \* directory contents (classes)
          ino,    \* "orig" | "fresh": inode behind `local`
          held,   \* what a reader that opened `local` before the call sees
          stl,    \* a left-over `local + '.new'` of an earlier run is (still) there
          wi,     \* next item of `lines`
          aexc,   \* pending exception ("none" or its kind)
          apath   \* actions taken (for the emitted cases)
avars == <<apc, ain, loc, tmpn, tmpd, stl, ino, held, wi, aexc, apath>>

ApFaultKinds == {"none", "open", "write", "close", "rename", "mktemp", "fetchwrite"}
ApOlds == {"absent", "old", "empty", "dir"}
ApRemotes == {"ok", "missing", "bad"}

Publishes(e) == e \in {"replace_file", "download_file"}
Downloads(e) == e \in {"download_file", "download_gunzip_lines"}

\* the input space (one record per call)
ApInputOK(i) ==
      /\ (i.newc = "old" => i.old0 = "old")                 \* new content = old content
      /\ (i.nw = 0 => i.newc = "empty")                      \* no items: nothing to write
      /\ i.srcfail <= i.nw + 1
      /\ (i.fault.k = "write" <=> i.fault.i > 0) /\ i.fault.i <= i.nw
      /\ (i.fault.k \in {"mktemp", "fetchwrite"} => Downloads(i.entry))
      /\ (i.fault.k \in {"open", "write", "close", "rename"} => Publishes(i.entry))
      /\ (Downloads(i.entry) => i.srcfail = 0)              \* the lines come from the download
      /\ (~Downloads(i.entry) => i.remote = "ok")
      /\ (Downloads(i.entry) /\ i.newc = "empty" => i.nw = 0)   \* a downloaded line is never empty
      /\ (~Publishes(i.entry) => ~i.stale /\ i.nw = 0 /\ i.old0 \in {"absent", "old"})
      \* a failed download ends the call: later faults and the content cannot matter
      /\ (i.remote # "ok" => i.fault.k \in {"none", "mktemp", "fetchwrite"} /\ i.nw = 0)
ApInputs ==
  { i \in [entry : ApEntries, old0 : ApOlds, stale : BOOLEAN, nw : 0..ApMaxW, newc : {"new", "old", "empty"},
           srcfail : 0..(ApMaxW + 1), remote : ApRemotes, fault : [k : ApFaultKinds, i : 0..ApMaxW]] : ApInputOK(i) }

NewC(i) == i.newc

ApInit ==
  /\ ain \in ApInputs
  /\ apc = IF Downloads(ain.entry) THEN "dl_mktemp" ELSE "rf_open"
  /\ loc = ain.old0
  /\ tmpn = "absent" /\ stl = ain.stale
  /\ tmpd = "absent"
  /\ ino = "orig" /\ held = ain.old0
  /\ wi = 1 /\ aexc = "none" /\ apath = <<>>

Step(name) == apath' = Append(apath, name)

------------------------------------------------------------------------------
\* download_gunzip_lines

\* (buffered / trace mode: an implementation may also get by without a temporary file -- tmpd stays absent)
DlMkTemp ==
  /\ apc = "dl_mktemp" /\ Step("MkTemp")
  /\ IF ain.fault.k = "mktemp"
     THEN aexc' = "OSError" /\ apc' = "done" /\ UNCHANGED tmpd      \* mkstemp is outside the try block
     ELSE tmpd' \in (IF ApBuffered THEN {"empty", "absent"} ELSE {"empty"}) /\ apc' = "dl_fetch" /\ UNCHANGED aexc
  /\ UNCHANGED <<ain, loc, tmpn, stl, ino, held, wi>>

DlFetch ==
  /\ apc = "dl_fetch" /\ Step("Fetch")
  /\ IF ain.remote = "missing" THEN aexc' = "URLError" /\ apc' = "dl_unlink" /\ UNCHANGED tmpd
     ELSE IF ain.fault.k = "fetchwrite" THEN aexc' = "OSError" /\ apc' = "dl_unlink" /\ tmpd' \in {"empty", "part"}
     ELSE tmpd' = (IF tmpd = "absent" THEN "absent" ELSE "gz") /\ apc' = "dl_gunzip" /\ UNCHANGED aexc
  /\ UNCHANGED <<ain, loc, tmpn, stl, ino, held, wi>>

DlGunzip ==
  /\ apc = "dl_gunzip" /\ Step("Gunzip")
  /\ aexc' = IF ain.remote = "bad" THEN "decode" ELSE "none"
  /\ apc' = "dl_unlink"
  /\ UNCHANGED <<ain, loc, tmpn, tmpd, stl, ino, held, wi>>

DlUnlink ==
  /\ apc = "dl_unlink" /\ Step("UnlinkTmp")
  /\ tmpd' = IF ApMode = "keepTmp" /\ aexc # "none" THEN tmpd ELSE "absent"
  /\ apc' = IF aexc # "none" \/ ain.entry = "download_gunzip_lines" THEN "done" ELSE "rf_open"
  /\ UNCHANGED <<ain, loc, tmpn, stl, ino, held, wi, aexc>>

------------------------------------------------------------------------------
\* replace_file

\* what of the data written so far is on the disk
AfterWrite(cur, last) ==
  IF ApBuffered THEN {cur, "part"} \cup (IF last THEN {NewC(ain)} ELSE {})
  ELSE IF NewC(ain) = "empty" THEN {"empty"} ELSE {"part"}

\* The code writes to `local + '.new'`: a left-over file of that name is truncated and becomes the new file.  (Buffered /
\* trace mode: an implementation may use another name and leave the left-over alone, or remove it at any of its steps.)
StaleAfter == IF ApBuffered THEN {stl, FALSE} ELSE {FALSE}
RfOpen ==
  /\ apc = "rf_open" /\ Step("Open")
  /\ IF ain.fault.k = "open" THEN aexc' = "OSError" /\ apc' = "rf_cleanup" /\ UNCHANGED <<loc, tmpn, held, stl>>
     ELSE /\ apc' = "rf_write" /\ UNCHANGED aexc
          /\ IF ApMode = "inPlace" /\ loc # "dir"
             THEN loc' = "empty" /\ held' = (IF held = "absent" THEN held ELSE "empty") /\ UNCHANGED <<tmpn, stl>>
             ELSE tmpn' = "empty" /\ stl' \in StaleAfter /\ UNCHANGED <<loc, held>>
  /\ UNCHANGED <<ain, tmpd, ino, wi>>

\* (buffered / trace mode only) an implementation may consume the iterable of lines, or look at `local`, before it
\* creates anything: the failure then comes without a temporary file ever having been there
RfEarlyFailure ==
  /\ ApBuffered /\ apc = "rf_open" /\ (ain.srcfail # 0 \/ loc = "dir") /\ Step("EarlyFailure")
  /\ aexc' = (IF ain.srcfail # 0 THEN "source" ELSE "OSError") /\ apc' = "rf_cleanup"
  /\ UNCHANGED <<ain, loc, tmpn, tmpd, stl, ino, held, wi>>

RfWrite ==
  /\ apc = "rf_write"
  /\ IF wi = ain.srcfail
     THEN \* the iterable raises / the item cannot be written: the with block closes the file, the error propagates
          /\ Step("SourceFails") /\ aexc' = "source" /\ apc' = "rf_cleanup" /\ UNCHANGED <<loc, tmpn, held, wi>>
     ELSE IF wi > ain.nw
     THEN /\ Step("EndOfLines") /\ apc' = "rf_close" /\ UNCHANGED <<loc, tmpn, held, wi, aexc>>
     ELSE IF ain.fault.k = "write" /\ ain.fault.i = wi
     THEN /\ Step("WriteFails") /\ aexc' = "OSError" /\ apc' = "rf_cleanup" /\ UNCHANGED <<held, wi>>
          /\ IF ApMode = "inPlace" THEN loc' \in {loc, "part"} /\ UNCHANGED tmpn
             ELSE tmpn' \in {tmpn, "part"} /\ UNCHANGED loc
     ELSE /\ Step("Write") /\ wi' = wi + 1 /\ UNCHANGED <<aexc, apc>>
          /\ IF ApMode = "inPlace" /\ loc # "dir"
             THEN loc' \in AfterWrite(loc, wi = ain.nw) /\ held' = (IF held = "absent" THEN held ELSE loc') /\ UNCHANGED tmpn
             ELSE tmpn' \in AfterWrite(tmpn, wi = ain.nw) /\ UNCHANGED <<loc, held>>
  /\ UNCHANGED <<ain, tmpd, stl, ino>>

\* renameEarly: the rename happens before close() has flushed the data
RfRenameEarly ==
  /\ ApMode = "renameEarly" /\ apc = "rf_close" /\ tmpn # "absent" /\ loc # "dir" /\ Step("Rename")
  /\ loc' = (IF tmpn = "part" /\ NewC(ain) = "empty" THEN "empty" ELSE tmpn) /\ tmpn' = "absent" /\ ino' = "fresh"
  /\ UNCHANGED <<ain, tmpd, stl, held, wi, aexc, apc>>

RfClose ==
  /\ apc = "rf_close" /\ (ApMode = "renameEarly" => tmpn = "absent" \/ loc = "dir") /\ Step("Close")
  /\ IF ain.fault.k = "close"
     THEN /\ aexc' = (IF ApMode = "swallow" THEN "none" ELSE "OSError")
          /\ apc' = (IF ApMode = "swallow" THEN "rf_rename" ELSE "rf_cleanup") /\ UNCHANGED <<loc, tmpn, held>>
     ELSE /\ UNCHANGED aexc
          /\ IF ApMode = "inPlace" /\ loc # "dir"
             THEN loc' = NewC(ain) /\ held' = (IF held = "absent" THEN held ELSE NewC(ain)) /\ UNCHANGED tmpn /\ apc' = "rf_cleanup"
             ELSE IF ApMode = "renameEarly" /\ loc # "dir"
             THEN loc' = NewC(ain) /\ UNCHANGED <<tmpn, held>> /\ apc' = "rf_cleanup"
             ELSE tmpn' = NewC(ain) /\ UNCHANGED <<loc, held>> /\ apc' = "rf_rename"
  /\ UNCHANGED <<ain, tmpd, stl, ino, wi>>

RfRename ==
  /\ apc = "rf_rename" /\ Step("Rename")
  /\ IF ain.fault.k = "rename" \/ loc = "dir"
     THEN aexc' = "OSError" /\ UNCHANGED <<loc, tmpn, ino>>
     ELSE /\ loc' = tmpn /\ tmpn' = "absent" /\ ino' = "fresh" /\ UNCHANGED aexc
  /\ apc' = "rf_cleanup"
  /\ UNCHANGED <<ain, tmpd, stl, held, wi>>

RfCleanup ==
  /\ apc = "rf_cleanup" /\ Step("Cleanup")
  /\ IF ApMode = "noCleanup" THEN UNCHANGED <<tmpn, stl>> ELSE tmpn' = "absent" /\ stl' \in StaleAfter
  /\ apc' = "done"
  /\ UNCHANGED <<ain, loc, tmpd, ino, held, wi, aexc>>

Outcome == IF aexc = "none" THEN "returned" ELSE "raised"

ApDone ==
  /\ apc = "done"
  /\ apc' = "end"
  /\ (ApEmit => PrintT(<<"CASE", ToJson([in |-> ain, path |-> apath, out |-> Outcome, exc |-> aexc,
                                       loc |-> loc, tmpn |-> tmpn, tmpd |-> tmpd, stl |-> stl, ino |-> ino, held |-> held])>>))
  /\ UNCHANGED <<ain, loc, tmpn, tmpd, stl, ino, held, wi, aexc, apath>>

ApNext == DlMkTemp \/ DlFetch \/ DlGunzip \/ DlUnlink \/ RfOpen \/ RfEarlyFailure \/ RfWrite \/ RfRenameEarly \/ RfClose \/ RfRename
          \/ RfCleanup \/ ApDone
ApSpec == ApInit /\ [][ApNext]_avars
ApLive == ApSpec /\ WF_avars(ApNext)

------------------------------------------------------------------------------
Finished == apc \in {"done", "end"}

ApTypeOK ==
  /\ ain \in ApInputs
  /\ loc \in ApOlds \cup {"new", "part"} /\ tmpn \in {"absent", "empty", "part", "new", "old"} /\ stl \in BOOLEAN
  /\ tmpd \in {"absent", "empty", "part", "gz"} /\ ino \in {"orig", "fresh"} /\ wi \in 1..(ApMaxW + 1)

\* the path `local` names the old thing or the complete new content -- in EVERY state
OldOrNew == loc \in {ain.old0, NewC(ain)}
\* a reader that opened the old file keeps seeing the old file (or the complete new content)
HeldIntact == held \in {ain.old0, NewC(ain)}
\* no temporary file of the call survives it (whether a left-over '.new' of an earlier run is removed is not specified:
\* the code removes it as soon as it gets as far as writing)
NoTempLeft == Finished => tmpn = "absent" /\ tmpd = "absent"
\* ... and the code at hand does remove the left-over whenever replace_file is reached
StaleRemovedWhenReached == Finished /\ stl /\ ~ApBuffered => ~Publishes(ain.entry) \/ (Downloads(ain.entry) /\ aexc # "none" /\ apath[Len(apath)] = "UnlinkTmp") \/ apath = <<"MkTemp">>
\* the download never has more than its one temporary file, and only replace_file makes a '.new'
TempDiscipline == (tmpd # "absent" => apc \in {"dl_fetch", "dl_gunzip", "dl_unlink"})
\* a call that raised has not touched `local`: same inode, same bytes
RaisedUntouched == Finished /\ aexc # "none" => loc = ain.old0 /\ ino = "orig" /\ held = ain.old0
\* a call that returned has published (the download of lines alone publishes nothing)
ReturnedPublished == Finished /\ aexc = "none" =>
                        IF Publishes(ain.entry) THEN loc = NewC(ain) /\ held = ain.old0
                        ELSE loc = ain.old0 /\ ino = "orig" /\ tmpn = "absent" /\ stl = ain.stale

\* declaratively: which inputs must raise
RfShould(i) == \/ i.fault.k \in {"open", "close", "rename"}
               \/ i.srcfail # 0 /\ (i.fault.k # "write" \/ i.srcfail <= i.fault.i)
               \/ i.fault.k = "write" /\ (i.srcfail = 0 \/ i.fault.i < i.srcfail)
               \/ i.old0 = "dir"
ShouldRaise(i) == \/ Downloads(i.entry) /\ (i.fault.k \in {"mktemp", "fetchwrite"} \/ i.remote # "ok")
                  \/ Publishes(i.entry) /\ RfShould(i)
FaultRaises == Finished => ((aexc # "none") <=> ShouldRaise(ain))

\* every call runs to its end
NoStuck == apc # "end" => ENABLED ApNext
Terminates == <>(apc = "end")
===============================================================================
