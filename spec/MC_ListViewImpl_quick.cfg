CONSTANTS
  Modes = {"sp", "cm"}
  MaxW = 3
  MaxT = 7
  MaxC = 1
  Dups = FALSE
  MaxEdits = 2
  Extras = TRUE
  Emit = FALSE
  SliceK = 1
  SliceR = 0
  InnerAlways = FALSE
  RemoveNodeOnly = FALSE
  LeakComments = FALSE
  NoContinuation = FALSE
  DropNlBeforeCmt = FALSE
SPECIFICATION Spec
INVARIANT LayoutValid
INVARIANT Refines
INVARIANT RoundTrip
INVARIANT KeepExact
INVARIANT TailOK
INVARIANT EditResult
INVARIANT StillValid
INVARIANT RefuseOnlyWhen
INVARIANT ValuesWellFormed
CHECK_DEADLOCK FALSE
