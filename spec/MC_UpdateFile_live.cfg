\* C19 termination: every call ends in returned or raised (weak fairness on Next, no constraint)
SPECIFICATION FairSpec
CONSTANTS
  MaxN = 3
  Sizes = {0, 2}
  FlavourSets = {{"SHA1", "SHA256"}}
  Mode = "code"
  Runs = 1
  RememberIndex = FALSE
  Emit = FALSE
PROPERTY Terminates
CHECK_DEADLOCK FALSE
