\* C19 termination: every call ends in returned or raised (weak fairness on Next, no constraint)
SPECIFICATION FairSpec
CONSTANTS
  MaxN = 3
  Sizes = {0, 2}
  FlavourSets = {{"SHA1", "SHA256"}}
  Mode = "code"
  Runs = 1
  FlavourPhase = 9
  FaultKinds = {"none", "patchCorrupt", "patchTruncated", "badLastPatch", "wrongResultHash", "indexMissing", "indexGarbage", "indexEmpty", "writeFails", "renameFails"}
  Entries = {"update_file"}
  RememberIndex = FALSE
  Emit = FALSE
  EmitEvery = 1
  EmitPhase = 0
PROPERTY Terminates
CHECK_DEADLOCK FALSE
