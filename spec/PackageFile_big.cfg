CONSTANTS
  NoText = 0
  TrimEnd = TRUE
  LenientBlank = FALSE
  FlushOnError = FALSE
  MaxLen = 0
  MaxLines = 0
  BigSel = {1, 2, 3, 4, 5, 6, 7, 8, 9, 10, 11, 12}
  Emit = TRUE
SPECIFICATION BigSpec
INVARIANT BigInvariant
INVARIANT EmitBig
CHECK_DEADLOCK FALSE
