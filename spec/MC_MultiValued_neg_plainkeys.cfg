\* C12 -- NEGATIVE CONTROL: a re-ordering operation (sort_fields, order_first ...) stores the keys it moves as plain strings; the class's lower-case look-ups miss them, the size column is not padded: WidthTable must be violated
CONSTANTS
  Tables <- DocTables
  Modes <- ModesNegPlain
  IterateAllFields = FALSE
  SplitEverySpace = FALSE
  CacheWidths = FALSE
  SharedEqualRecords = FALSE
  ClassLevelOption = FALSE
  StoreBeforeValidate = FALSE
  ReorderStoresPlainKeys = TRUE
  RefusedUnlinksFirst = FALSE
  Emit = FALSE
  EmitOff = 0
SPECIFICATION Spec
INVARIANT TypeOK
INVARIANT DumpTotal
INVARIANT RecordsRoundTrip
INVARIANT SubFieldNames
INVARIANT WidthTable
INVARIANT WidthRule
INVARIANT RightAligned
CHECK_DEADLOCK FALSE
