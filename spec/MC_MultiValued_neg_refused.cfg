\* C12 -- NEGATIVE CONTROL: order_before / order_after unlink the item before they look up the reference; after a call that is refused because the reference is absent the item is still answered by look-ups but no longer written by dump(): DumpExplains (RecordsRoundTrip) must be violated
CONSTANTS
  Tables <- DocTables
  Modes <- ModesNegRefused
  IterateAllFields = FALSE
  SplitEverySpace = FALSE
  CacheWidths = FALSE
  SharedEqualRecords = FALSE
  ClassLevelOption = FALSE
  StoreBeforeValidate = FALSE
  ReorderStoresPlainKeys = FALSE
  RefusedUnlinksFirst = TRUE
  Emit = FALSE
  EmitOff = 0
SPECIFICATION Spec
INVARIANT DumpTotal
INVARIANT DumpExplains
INVARIANT RecordsRoundTrip
INVARIANT SubFieldNames
CHECK_DEADLOCK FALSE
