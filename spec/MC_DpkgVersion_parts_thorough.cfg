\* C03 thorough: pairs of single-component versions, <= 4 characters over
\* 0 1 9 a . ~   (1554 strings, 2 414 916 pairs)
CONSTANTS
  HashOnString = FALSE
  TildeOrderZero = FALSE
  Epochs <- S_none
  Revs <- S_none
  UpChars = {48, 49, 57, 97, 46, 126}
  MaxUp = 4
  Seps = FALSE
  Triples = FALSE
  EmitStride = 0
  EmitOffset = 0
  CheckPos = FALSE
SPECIFICATION Spec
INVARIANT Agree
INVARIANT SplitAgree
INVARIANT Antisym
INVARIANT Trichotomy
INVARIANT Reflexive
INVARIANT HashConsistent
INVARIANT HashImpl
CHECK_DEADLOCK FALSE
