CONSTANTS
  Docs = {1, 2}
  Fields = {"F"}
  Handles = {1, 2}
  MaxLen = 3
  MaxSteps = 4
  Extras = FALSE
  Emit = FALSE
  SharedTokenCache = FALSE
  StaleSnapshot = FALSE
SPECIFICATION Spec
INVARIANT IdsUnique
PROPERTY Isolation
PROPERTY DocLocal
PROPERTY WriteBack
PROPERTY StaleOnlyAfterWrite
CHECK_DEADLOCK FALSE
