CONSTANTS
  MaxLen = 0
  MaxLines = 0
  BigSel = {1, 2, 3, 4, 5, 6, 7, 8, 9, 10, 11, 12}
  Emit = TRUE
  DashFirstOK = FALSE
  CommentClosesField = FALSE
  DupAcrossBlank = FALSE
  CaseSensitiveDup = FALSE
SPECIFICATION BigSpec
INVARIANT BigInvariant
INVARIANT EmitBig
CHECK_DEADLOCK FALSE
