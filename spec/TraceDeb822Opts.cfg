SPECIFICATION TSpec
INVARIANT TUnique
CHECK_DEADLOCK FALSE
