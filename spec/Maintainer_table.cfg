CONSTANTS
  MtMode = "table"
  MtDefects = {}
  MtEmit = "all"
SPECIFICATION MtSpec
INVARIANT MtTypeOK
INVARIANT DebfullnameWins
INVARIANT DebemailWins
INVARIANT EmailIgnoresNames
INVARIANT NameIgnoresMailSetup
INVARIANT FallbackOnlyWhenUnset
INVARIANT NoneOnlyWhenUndetermined
INVARIANT NeverRaises
INVARIANT SplitExplainsAlg
INVARIANT SplitIdempotent
INVARIANT ZoneCharacterised
INVARIANT EmitCase
CHECK_DEADLOCK FALSE
