----------------------------- MODULE Removals -----------------------------
(***************************************************************************)
(* X05 (a) -- the line grammars of debian.deb822.Removals (ftp-master      *)
(* removals.822): the multi-line fields Sources / Binaries and the number  *)
(* lists Bug / Also-WNPP / Also-Bugs.                                      *)
(*                                                                         *)
(* STATEMENT.  For every removals paragraph written from a list of         *)
(* (source, version) records, a list of (binary, version, non-empty        *)
(* architecture set) records and lists of bug numbers -- one record per    *)
(* line, `name_version` resp. `name_version [arch, arch]`, any white space *)
(* before and after the line, lines without an underscore interleaved --   *)
(* `sources` and `binaries` return exactly those records in order (the     *)
(* architectures as a set), lines without an underscore contribute no      *)
(* record and never raise; `bug` (comma separated), `also_wnpp` and        *)
(* `also_bugs` (single-space separated) return exactly the numbers, and [] *)
(* when the field is absent OR EMPTY (the library's own fixture            *)
(* test_removals.822 has `Also-WNPP:` with no value).                      *)
(*                                                                         *)
(* A line is a sequence of TOKENS [c |-> class, i |-> id]:                 *)
(*   SP  exactly one U+0020        WS  any other non-empty white-space run *)
(*   W   a maximal run of characters that are neither white space nor one  *)
(*       of _ [ ] ,                U _   L [   R ]   C ,                   *)
(* (maximal runs: no two white-space tokens and no two W are adjacent).    *)
(* The id names the text of the token, so that a result is a sequence of   *)
(* ids and equality of id sequences is equality of strings.  A W stands    *)
(* for a run of ANY length >= 1: none of the quantifiers of the two        *)
(* regular expressions can end inside a W or (in the decided domain)       *)
(* inside a white-space run, so the reading is length-independent by       *)
(* construction; the harness uses this for the size stress (names of       *)
(* 64 KiB, 1000 architectures, fields of 1000+ lines).                     *)
(*                                                                         *)
(* Layers:                                                                 *)
(*  statement       SrcShape / BinShape (the image of the writer),         *)
(*                  ShapeSrcRec / ShapeBinRec (the record a shaped line    *)
(*                  denotes), ExpSrc / ExpBin: the verdict domain --       *)
(*                  "rec" for shaped lines, "none" for lines without       *)
(*                  underscore, "unspec" for everything else (executed,    *)
(*                  any outcome accepted);  NumStmt for the number lists.  *)
(*  implementation  SrcMatch / BinMatch: the two regular expressions       *)
(*                  (\s* .+? _ [^\s]+ \s*  and  ... \s+ \[ .+ \]) with     *)
(*                  re.match semantics (leftmost, lazy package, greedy     *)
(*                  version / architectures, back-tracking over the        *)
(*                  package end and into the leading white space) and      *)
(*                  split(', ');  NumImpl: split + int().  "odd" marks     *)
(*                  the lines whose match would cut a white-space token    *)
(*                  (outside the decided domain).                          *)
(*                                                                         *)
(* Bounded configurations: Spec enumerates the neighbourhood of the        *)
(* writer's image -- every template line (source / binary line with        *)
(* 1..MaxArch architectures, leading / inner / trailing white space        *)
(* variants, the empty line) and every line <= MaxEdits token edits        *)
(* (delete / replace / insert) away from one; NSpec enumerates every       *)
(* number-list token sequence of <= MaxNum tokens.  Invariants:            *)
(* SrcRoundTrip, BinRoundTrip, SrcOnBinLine, NoUnderscoreNoRecord,         *)
(* NumRefines.                                                             *)
(*                                                                         *)
(* Spec-level negative controls (each tried, each makes TLC report the     *)
(* named invariant; x05.py re-runs them in every check):                   *)
(*   SplitComma = TRUE   (architectures split at "," instead of ", ")      *)
(*                                          -> BinRoundTrip violated       *)
(*   SrcNeedsWs = TRUE   (source regex ends in \s+ like the binary one)    *)
(*                                          -> SrcRoundTrip violated       *)
(*   EmptyRaises = TRUE  (int('') for a present but empty number field --  *)
(*                        what the code in /repo does: finding             *)
(*                        X05-empty-number-field) -> NumRefines violated   *)
(***************************************************************************)
EXTENDS Integers, Sequences, FiniteSets, TLC, Json

CONSTANTS Leads, Gaps, Trails,  \* white-space variants of the templates: subsets of {"none", "SP", "WS"}
          MaxArch,              \* architectures per template binary line
          MaxEdits, MaxLen,     \* neighbourhood radius, longest line (tokens)
          EditClasses,          \* token classes inserted / substituted by an edit
          MaxNum,               \* longest number-list token sequence
          SplitComma,           \* negative control
          SrcNeedsWs,           \* negative control
          EmptyRaises,          \* negative control = the behaviour of the code (known finding)
          Emit                  \* TRUE: print LINE / NUM cases for the harness

VARIABLES rline,                \* the line: a sequence of token classes (ids are the positions)
          redits,               \* edits applied to the template so far
          nline                 \* the number-list: a sequence of token classes
vars == <<rline, redits, nline>>

----------------------------------------------------------------------------
\* tokens

Tk(c, i)   == [c |-> c, i |-> i]
WsC        == {"SP", "WS"}
IsWs(t)    == t.c \in WsC
Classes(ts) == [p \in 1..Len(ts) |-> ts[p].c]
Ids(ts)     == [p \in 1..Len(ts) |-> ts[p].i]
Renum(cs)   == [p \in 1..Len(cs) |-> Tk(cs[p], p)]
HasU(line)  == \E p \in 1..Len(line) : line[p].c = "U"
SetMin(S)   == CHOOSE x \in S : \A y \in S : x <= y
SetMax(S)   == CHOOSE x \in S : \A y \in S : x >= y

\* last token of the maximal run of non-blank tokens that starts at p (p - 1: there is none)
RECURSIVE RunEnd(_, _)
RunEnd(line, p) == IF p > Len(line) THEN p - 1
                   ELSE IF IsWs(line[p]) THEN p - 1 ELSE RunEnd(line, p + 1)

----------------------------------------------------------------------------
\* statement layer: the image of the writer and the record a line denotes

Core(line) == LET a == IF Len(line) > 0 /\ IsWs(line[1]) THEN 2 ELSE 1
                  b == IF Len(line) >= a /\ IsWs(line[Len(line)]) THEN Len(line) - 1 ELSE Len(line)
              IN SubSeq(line, a, b)

\* W (C SP W)*
ArchListShape(cs) == /\ Len(cs) % 3 = 1
                     /\ \A p \in 1..Len(cs) : cs[p] = (CASE p % 3 = 1 -> "W" [] p % 3 = 2 -> "C" [] OTHER -> "SP")

SrcShape(line) == Classes(Core(line)) = <<"W", "U", "W">>
BinShape(line) == LET cs == Classes(Core(line))
                      n  == Len(cs)
                  IN /\ n >= 7
                     /\ SubSeq(cs, 1, 3) = <<"W", "U", "W">>
                     /\ cs[4] \in WsC /\ cs[5] = "L" /\ cs[n] = "R"
                     /\ ArchListShape(SubSeq(cs, 6, n - 1))

ShapeSrcRec(line) == LET c == Core(line) IN [m |-> "rec", pkg |-> <<c[1].i>>, ver |-> <<c[3].i>>]
ShapeBinRec(line) == LET c == Core(line)
                     IN [m |-> "rec", pkg |-> <<c[1].i>>, ver |-> <<c[3].i>>,
                         archs |-> {<<c[p].i>> : p \in {q \in 6..(Len(c) - 1) : c[q].c = "W"}}]

NoMatch == [m |-> "none"]
Odd     == [m |-> "odd"]
Unspec  == [m |-> "unspec"]

\* what the statement says about one line of a Sources / Binaries field
ExpSrc(line) == IF SrcShape(line) \/ BinShape(line)
                THEN [m |-> "rec", pkg |-> ShapeSrcRec(line).pkg, ver |-> ShapeSrcRec(line).ver]
                ELSE IF ~HasU(line) THEN NoMatch ELSE Unspec
ExpBin(line) == IF BinShape(line) THEN ShapeBinRec(line)
                ELSE IF ~HasU(line) THEN NoMatch ELSE Unspec

----------------------------------------------------------------------------
\* implementation layer: the two regular expressions with re.match semantics

Lead(line) == IF Len(line) > 0 /\ IsWs(line[1]) THEN 1 ELSE 0

\* the package may end at token j: an underscore follows, then at least one non-blank
PkgEnds(line, from) == {j \in from..(Len(line) - 2) : line[j + 1].c = "U" /\ ~IsWs(line[j + 2])}

\* architectures: archs.split(', ') -- a separator is a comma followed by exactly one space
RECURSIVE SplitFrom(_, _, _, _)
SplitFrom(ts, p, cur, out) ==
   IF p > Len(ts) THEN Append(out, cur)
   ELSE IF SplitComma /\ ts[p].c = "C" THEN SplitFrom(ts, p + 1, <<>>, Append(out, cur))
   ELSE IF ~SplitComma /\ ts[p].c = "C" /\ p < Len(ts) /\ ts[p + 1].c = "SP"
        THEN SplitFrom(ts, p + 2, <<>>, Append(out, cur))
   ELSE SplitFrom(ts, p + 1, Append(cur, ts[p].i), out)
SplitArchs(ts) == LET items == SplitFrom(ts, 1, <<>>, <<>>) IN {items[k] : k \in 1..Len(items)}
\* ", " found inside a longer white-space run: the cut would fall inside a token
ArchOdd(ts) == \E p \in 1..(Len(ts) - 1) : ts[p].c = "C" /\ ts[p + 1].c = "WS"

\* __sources_line_re:  \s* (?P<package>.+?) _ (?P<version>[^\s]+) \s*
SrcOkAt(line, j) == SrcNeedsWs => RunEnd(line, j + 2) < Len(line)
SrcAt(line, from, j) == [m |-> "rec", pkg |-> Ids(SubSeq(line, from, j)),
                         ver |-> Ids(SubSeq(line, j + 2, RunEnd(line, j + 2)))]
SrcMatch(line) ==
   LET k0 == Lead(line)
       js == {j \in PkgEnds(line, k0 + 1) : SrcOkAt(line, j)}
   IN IF js # {} THEN SrcAt(line, k0 + 1, SetMin(js))
      \* \s* gives characters back: the package starts inside the leading white space
      ELSE IF k0 = 1 /\ 1 \in PkgEnds(line, 1) /\ SrcOkAt(line, 1)
           THEN (IF line[1].c = "SP" THEN SrcAt(line, 1, 1) ELSE Odd)
      ELSE NoMatch

\* __binaries_line_re:  \s* (?P<package>.+?) _ (?P<version>[^\s]+) \s+ \[ (?P<archs>.+) \]
BinOkAt(line, j) == LET e == RunEnd(line, j + 2)
                    IN /\ e + 2 <= Len(line)
                       /\ line[e + 2].c = "L"
                       /\ \E q \in (e + 4)..Len(line) : line[q].c = "R"
BinAt(line, from, j) ==
   LET e  == RunEnd(line, j + 2)
       q  == SetMax({x \in (e + 4)..Len(line) : line[x].c = "R"})
       ar == SubSeq(line, e + 3, q - 1)
   IN IF ArchOdd(ar) THEN Odd
      ELSE [m |-> "rec", pkg |-> Ids(SubSeq(line, from, j)), ver |-> Ids(SubSeq(line, j + 2, e)),
            archs |-> SplitArchs(ar)]
BinMatch(line) ==
   LET k0 == Lead(line)
       js == {j \in PkgEnds(line, k0 + 1) : BinOkAt(line, j)}
   IN IF js # {} THEN BinAt(line, k0 + 1, SetMin(js))
      ELSE IF k0 = 1 /\ 1 \in PkgEnds(line, 1) /\ BinOkAt(line, 1)
           THEN (IF line[1].c = "SP" THEN BinAt(line, 1, 1) ELSE Odd)
      ELSE NoMatch

\* a whole field: the records of its lines in order (lines that do not match are skipped)
RECURSIVE SrcRecords(_, _)
SrcRecords(ls, k) == IF k > Len(ls) THEN <<>>
                     ELSE (IF SrcMatch(ls[k]).m = "rec" THEN <<SrcMatch(ls[k])>> ELSE <<>>) \o SrcRecords(ls, k + 1)
RECURSIVE BinRecords(_, _)
BinRecords(ls, k) == IF k > Len(ls) THEN <<>>
                     ELSE (IF BinMatch(ls[k]).m = "rec" THEN <<BinMatch(ls[k])>> ELSE <<>>) \o BinRecords(ls, k + 1)

\* the statement decides a field only when it decides every line of it
SrcDecided(ls) == \A k \in 1..Len(ls) : ExpSrc(ls[k]).m # "unspec"
BinDecided(ls) == \A k \in 1..Len(ls) : ExpBin(ls[k]).m # "unspec"
RECURSIVE SrcExpected(_, _)
SrcExpected(ls, k) == IF k > Len(ls) THEN <<>>
                      ELSE (IF ExpSrc(ls[k]).m = "rec" THEN <<ExpSrc(ls[k])>> ELSE <<>>) \o SrcExpected(ls, k + 1)
RECURSIVE BinExpected(_, _)
BinExpected(ls, k) == IF k > Len(ls) THEN <<>>
                      ELSE (IF ExpBin(ls[k]).m = "rec" THEN <<ExpBin(ls[k])>> ELSE <<>>) \o BinExpected(ls, k + 1)

----------------------------------------------------------------------------
\* number lists.  Tokens: D a run of ASCII digits, X any other word, C, SP, WS.
\* kind "bug": self['bug'].split(",") ; kind "also": self[...].split(" ") ; then int() of every piece

NumIds(ts) == LET ds == SelectSeq(ts, LAMBDA t : t.c = "D") IN Ids(ds)

\* D ((C | C SP) D)*           D (SP D)*
RECURSIVE BugTail(_, _)
BugTail(cs, p) == IF p > Len(cs) THEN TRUE
                  ELSE IF cs[p] # "C" THEN FALSE
                  ELSE IF p + 1 <= Len(cs) /\ cs[p + 1] = "D" THEN BugTail(cs, p + 2)
                  ELSE IF p + 2 <= Len(cs) /\ cs[p + 1] = "SP" /\ cs[p + 2] = "D" THEN BugTail(cs, p + 3)
                  ELSE FALSE
BugShape(ts)  == Len(ts) >= 1 /\ ts[1].c = "D" /\ BugTail(Classes(ts), 2)
AlsoShape(ts) == /\ Len(ts) % 2 = 1
                 /\ \A p \in 1..Len(ts) : ts[p].c = (IF p % 2 = 1 THEN "D" ELSE "SP")
NumShape(kind, ts) == IF kind = "bug" THEN BugShape(ts) ELSE AlsoShape(ts)

NumOk(ids)  == [k |-> "ok", nums |-> ids]
NumErr      == [k |-> "ValueError", nums |-> <<>>]
NumUnspec   == [k |-> "unspec", nums |-> <<>>]
NumOdd      == [k |-> "odd", nums |-> <<>>]

NumStmt(kind, ts) == IF ts = <<>> THEN NumOk(<<>>)
                     ELSE IF NumShape(kind, ts) THEN NumOk(NumIds(ts))
                     ELSE NumUnspec

\* pieces between separators; int() accepts surrounding white space
RECURSIVE Pieces(_, _, _, _, _)
Pieces(ts, sep, p, cur, out) ==
   IF p > Len(ts) THEN Append(out, cur)
   ELSE IF ts[p].c = sep THEN Pieces(ts, sep, p + 1, <<>>, Append(out, cur))
   ELSE Pieces(ts, sep, p + 1, Append(cur, ts[p]), out)
IntOk(piece) == Classes(Core(piece)) = <<"D">>
NumImpl(kind, ts, emptyRaises) ==
   IF ts = <<>> /\ ~emptyRaises THEN NumOk(<<>>)
   \* a longer white-space run may contain the separating space: the cut would fall inside a token
   ELSE IF kind = "also" /\ \E p \in 1..Len(ts) : ts[p].c = "WS" THEN NumOdd
   ELSE LET ps == Pieces(ts, IF kind = "bug" THEN "C" ELSE "SP", 1, <<>>, <<>>)
        IN IF \A k \in 1..Len(ps) : IntOk(ps[k]) THEN NumOk(NumIds(ts)) ELSE NumErr

----------------------------------------------------------------------------
\* bounded generators

WsSeq(x)  == IF x = "none" THEN <<>> ELSE <<x>>
RECURSIVE ArchList(_)
ArchList(n) == IF n = 1 THEN <<"W">> ELSE ArchList(n - 1) \o <<"C", "SP", "W">>
SrcTemplates == {WsSeq(a) \o <<"W", "U", "W">> \o WsSeq(z) : a \in Leads, z \in Trails}
BinTemplates == {WsSeq(a) \o <<"W", "U", "W", g, "L">> \o ArchList(n) \o <<"R">> \o WsSeq(z) :
                    a \in Leads, g \in Gaps \ {"none"}, n \in 1..MaxArch, z \in Trails}
Templates == SrcTemplates \cup BinTemplates \cup {<<>>}

WellTok(cs) == \A p \in 1..(Len(cs) - 1) : /\ ~(cs[p] \in WsC /\ cs[p + 1] \in WsC)
                                            /\ ~(cs[p] = "W" /\ cs[p + 1] = "W")
EditsOf(cs) ==
        {SubSeq(cs, 1, p - 1) \o SubSeq(cs, p + 1, Len(cs)) : p \in 1..Len(cs)}
   \cup {[cs EXCEPT ![p] = c] : p \in 1..Len(cs), c \in EditClasses}
   \cup {SubSeq(cs, 1, p - 1) \o <<c>> \o SubSeq(cs, p, Len(cs)) : p \in 1..(Len(cs) + 1), c \in EditClasses}

Init == rline \in Templates /\ redits = 0 /\ nline = <<>>
Next == /\ redits < MaxEdits
        /\ \E new \in EditsOf(rline) :
              /\ new # rline /\ Len(new) <= MaxLen /\ WellTok(new)
              /\ rline' = new
        /\ redits' = redits + 1
        /\ UNCHANGED nline
Spec == Init /\ [][Next]_vars

NumClasses == {"D", "X", "C", "SP", "WS"}
NumWellTok(cs) == \A p \in 1..(Len(cs) - 1) : /\ ~(cs[p] \in WsC /\ cs[p + 1] \in WsC)
                                               /\ ~(cs[p] \in {"D", "X"} /\ cs[p + 1] \in {"D", "X"})
NInit == rline = <<>> /\ redits = 0 /\ nline = <<>>
NNext == /\ Len(nline) < MaxNum
         /\ \E c \in NumClasses : NumWellTok(Append(nline, c)) /\ nline' = Append(nline, c)
         /\ UNCHANGED <<rline, redits>>
NSpec == NInit /\ [][NNext]_vars

----------------------------------------------------------------------------
\* what is checked in every state

Line  == Renum(rline)
NLine == Renum(nline)

TypeOK == WellTok(rline) /\ NumWellTok(nline) /\ redits \in 0..MaxEdits

\* the reader inverts the writer
SrcRoundTrip == SrcShape(Line) => SrcMatch(Line) = ShapeSrcRec(Line)
BinRoundTrip == BinShape(Line) => BinMatch(Line) = ShapeBinRec(Line)
\* a binary line in a Sources field is read as (name, version)
SrcOnBinLine == BinShape(Line) => SrcMatch(Line) = ExpSrc(Line)
\* without an underscore there is no record (and nothing else can happen: the readers are total)
NoUnderscoreNoRecord == ~HasU(Line) => SrcMatch(Line) = NoMatch /\ BinMatch(Line) = NoMatch
\* whatever the statement decides, the implementation layer agrees with
LineRefines == /\ ExpSrc(Line).m # "unspec" => SrcMatch(Line) = ExpSrc(Line)
               /\ ExpBin(Line).m # "unspec" => BinMatch(Line) = ExpBin(Line)
NumRefines  == \A kind \in {"bug", "also"} :
                  NumStmt(kind, NLine).k # "unspec" => NumImpl(kind, NLine, EmptyRaises) = NumStmt(kind, NLine)

----------------------------------------------------------------------------
\* emission for the harness (spec -> code): one line per state

EmitLine == Emit => PrintT(<<"LINE", ToJson([cs |-> rline, esrc |-> ExpSrc(Line), ebin |-> ExpBin(Line),
                                             isrc |-> SrcMatch(Line), ibin |-> BinMatch(Line)])>>)
EmitNum  == Emit => PrintT(<<"NUM", ToJson([cs |-> nline,
                                            sbug |-> NumStmt("bug", NLine), salso |-> NumStmt("also", NLine),
                                            ibug |-> NumImpl("bug", NLine, TRUE), ialso |-> NumImpl("also", NLine, TRUE)])>>)
=============================================================================
