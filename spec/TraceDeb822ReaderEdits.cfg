CONSTANTS
  WsSeparates = TRUE
  NoText = ""
  TrimFirst = TRUE
  CommentEndsValue = FALSE
  LeadingBlankSkipped = TRUE
  ArmorHeadersSkipped = TRUE
  GpgMvLeadOK = TRUE
  Keys = {}
  MaxPara = 0
  MaxFields = 0
  MaxCont = 0
  MaxTotal = 0
  ShapeMode = 0
  ArmorHdrs = {}
  SigBools = {TRUE, FALSE}
  BigSel = {}
  ArmorMaxFields = 3
  Emit = FALSE
  EKeys = {}
  UseMemo = FALSE
  MemoClearedBy = {}
  RefusedLeaksKey = FALSE
SPECIFICATION TESpec
CHECK_DEADLOCK FALSE
INVARIANT TENamesUnique
