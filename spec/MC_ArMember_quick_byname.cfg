\* C06 design configuration, quick tier, ArFile(filename=...) mode: every member re-opens the file
\* by name and has a private file position; archives of 0..2 members with 0..1 data bytes
CONSTANTS
  Bytes = {10, 120}
  Names = {1}
  MaxMembers = 2
  MaxData = 1
  RdSizes = {1}
  RlSizes = {0, 1}
  SeekMax = 2
  Ops = TRUE
  Hints = {1, 2}
  Faults = {"raise"}
  IterSingleLine = FALSE
  Emit = FALSE
  Modes = {"byname"}
  ClampReadline = TRUE
  PadOdd = TRUE
  SeekFirst = TRUE
  IterYieldsAll = TRUE
  FdKinds = {"same"}
  TrustFd = FALSE
  CommitAfterRead = TRUE
  Bases = {0}
  TellOffsets = TRUE
  FreshLists = TRUE
SPECIFICATION Spec
INVARIANT TypeOK
INVARIANT IndexExact
INVARIANT Refines
PROPERTY SameResult
PROPERTY NamesExact
PROPERTY Isolation
PROPERTY RExact
PROPERTY RLinesNL
PROPERTY RIsolated
VIEW ImplView
CHECK_DEADLOCK FALSE
