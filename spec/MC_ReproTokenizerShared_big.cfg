CONSTANTS
  LineIds = {1, 2}
  MaxLen = 2
  MaxDocs = 3
  MaxEdits = 2
  SharedTokens = FALSE
  LeftoverRunBuffer = FALSE
  MaxFails = 1
SPECIFICATION Spec
INVARIANT UnmodifiedLossless
INVARIANT InputUntouched
INVARIANT NoSharing
PROPERTY Isolation
CHECK_DEADLOCK FALSE
