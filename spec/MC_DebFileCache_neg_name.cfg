CONSTANTS
  CacheKeyedByNameOnly = TRUE
  ContentCacheByFile = FALSE
  ResultsAliased = FALSE
  GetMemberRewinds = FALSE
  LazyScanDiesOnFault = FALSE
  EmitH = FALSE
SPECIFICATION Spec
INVARIANT CacheCoherent
INVARIANT NoOtherMemo
PROPERTY HistExact
PROPERTY RepeatStable
VIEW HView
CHECK_DEADLOCK FALSE
