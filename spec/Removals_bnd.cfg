CONSTANTS
  Leads = {"none", "SP", "WS"}
  Gaps = {"SP", "WS"}
  Trails = {"none", "SP", "WS"}
  MaxArch = 3
  MaxEdits = 2
  MaxLen = 20
  EditClasses = {"SP", "WS", "W", "U", "L", "R", "C"}
  MaxNum = 0
  SplitComma = FALSE
  SrcNeedsWs = FALSE
  EmptyRaises = FALSE
  Emit = FALSE
SPECIFICATION Spec
INVARIANT TypeOK
INVARIANT SrcRoundTrip
INVARIANT BinRoundTrip
INVARIANT SrcOnBinLine
INVARIANT NoUnderscoreNoRecord
INVARIANT LineRefines
CHECK_DEADLOCK FALSE
