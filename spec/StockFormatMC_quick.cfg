CONSTANTS
  MaxInp = 3
  NameLens = {1, 7}
  Emit = TRUE
  BadShip = ""
SPECIFICATION SfSpec
INVARIANT InvLayout
INVARIANT InvEmit
CHECK_DEADLOCK FALSE
