------------------------- MODULE Deb822ReaderCalls -------------------------
(***************************************************************************)
(* C02 -- independence of calls.  The statement quantifies over every      *)
(* document whatever was parsed before, so a parse result must not depend  *)
(* on earlier calls, on what the caller did to earlier results, or on      *)
(* other iterations in progress.                                           *)
(*                                                                         *)
(* heap = the paragraph objects handed to the caller so far                *)
(*        [d, pos, val, mut]: paragraph pos of document d, its present     *)
(*        content, "the caller has mutated it";                            *)
(* its  = the iter_paragraphs generators in progress [d, pos, done, obj].  *)
(* Actions: ParseOne(d) (Deb822(x)), IterOpen(d), IterNext(i) (next() on   *)
(* generator i: a new paragraph object or StopIteration), Mutate(o, kind)  *)
(* (the CALLER poisons / deletes / adds / re-orders fields of one of his   *)
(* objects).  The content of a fresh object is Parse(Dump(P_d))[pos] of    *)
(* Deb822Reader.  Two documents: d = 1 has two paragraphs with identical   *)
(* names, d = 2 one paragraph.                                             *)
(*                                                                         *)
(* Properties: ReturnedFresh (what a call returns is the model value,      *)
(* unmutated), FreshIdentity (it is a new object), NoSpontaneousChange     *)
(* (an object only changes when the caller mutates that very object).      *)
(* Negative controls: SharedResults = TRUE (a memo keyed by the input      *)
(* returns the object parsed earlier) -> FreshIdentity / ReturnedFresh;    *)
(* SharedIterObject = TRUE (a generator re-uses the object it yielded      *)
(* before) -> NoSpontaneousChange.                                         *)
(* Failing calls (hardening round 6, notes/SIZE_STRESS.md part 5):         *)
(* ParseFault(d, at) / ListFault(d, at) = Deb822(x) / list(iter_paragraphs *)
(* (x)) with a faulting twin x of document d: the caller's object raises   *)
(* when its first / a middle / its last line is requested (for Deb822(x):  *)
(* of the first paragraph).  The caller's exception comes out and nothing  *)
(* else happens: no object is handed out, the objects and generators the   *)
(* caller holds are what they were (FaultsChangeNothing), and the history  *)
(* goes on.  Enabled by FaultPos # {} (own, smaller configuration).         *)
(* Negative control: FaultSharesStorage = TRUE (the half-read paragraph    *)
(* lands in the storage of an object of the same document handed out       *)
(* earlier) -> NoSpontaneousChange.                                        *)
(* The closed configuration emits the LTS (EDGE lines: call, returned      *)
(* object, content of every object afterwards) which the harness replays   *)
(* into the real classes with the six input forms.                         *)
(***************************************************************************)
EXTENDS Deb822Reader

CONSTANTS MaxObjs, MaxIters, Kinds, SharedResults, SharedIterObject,
          FaultPos,            \* positions of the failing line request ({}: no failing calls in this configuration)
          FaultSharesStorage   \* design: FALSE

VARIABLES heap, its, last
cvars == <<heap, its, last>>

Sh(e, n) == [e |-> e, n |-> n]
DocShapes == << << <<Sh(FALSE, 0), Sh(TRUE, 1)>>, <<Sh(FALSE, 1), Sh(FALSE, 0)>> >>,
               << <<Sh(TRUE, 2), Sh(FALSE, 0)>> >> >>
NDocs == Len(DocShapes)
Offset(Q, d) == [p \in 1..Len(Q) |-> [f \in 1..Len(Q[p]) |->
                   [k |-> Q[p][f].k,
                    v |-> [j \in 1..Len(Q[p][f].v) |-> IF Q[p][f].v[j] = NoText THEN NoText ELSE 100000000 * d + Q[p][f].v[j]]]]]
CDoc(d)  == Offset(DocOf(DocShapes[d]), d)
Model(d) == Parse(Dump(CDoc(d)))

Poison == 666
Added  == [k |-> 99, v |-> <<667>>]
Mut(val, kind) ==
  CASE kind = "poison" -> [i \in 1..Len(val) |-> [k |-> val[i].k, v |-> <<Poison>>]]
    [] kind = "del"    -> Tail(val)
    [] kind = "add"    -> Append(val, Added)
    [] kind = "first"  -> <<val[Len(val)]>> \o SubSeq(val, 1, Len(val) - 1)
    [] kind = "heavy"  -> LET a == [i \in 1..Len(val) |-> [k |-> val[i].k, v |-> <<Poison>>]]
                              b == Append(Tail(a), Added)
                          IN <<b[Len(b)]>> \o SubSeq(b, 1, Len(b) - 1)

Obj(d, pos) == [d |-> d, pos |-> pos, val |-> Model(d)[pos], mut |-> FALSE]

CEdge(op, args) == Emit => PrintT(<<"EDGE", ToJson([from |-> [heap |-> heap, its |-> its], op |-> op, args |-> args,
                                                    res |-> last'.ret, to |-> [heap |-> heap', its |-> its']])>>)

CInit == /\ rd = RInit(FALSE) /\ doc = <<>>
         /\ heap = <<>> /\ its = <<>> /\ last = [op |-> "none", ret |-> 0, d |-> 0, pos |-> 0]

ParseOneCall(d) ==
    /\ Len(heap) < MaxObjs
    /\ IF SharedResults /\ \E o \in 1..Len(heap) : heap[o].d = d /\ heap[o].pos = 1
       THEN /\ heap' = heap
            /\ last' = [op |-> "parse", ret |-> CHOOSE o \in 1..Len(heap) : heap[o].d = d /\ heap[o].pos = 1, d |-> d, pos |-> 1]
       ELSE /\ heap' = Append(heap, Obj(d, 1))
            /\ last' = [op |-> "parse", ret |-> Len(heap) + 1, d |-> d, pos |-> 1]
    /\ UNCHANGED its
    /\ CEdge("parse", <<d>>)

IterOpen(d) ==
    /\ Len(its) < MaxIters
    /\ its' = Append(its, [d |-> d, pos |-> 0, done |-> FALSE, obj |-> 0])
    /\ last' = [op |-> "open", ret |-> 0, d |-> d, pos |-> 0]
    /\ UNCHANGED heap
    /\ CEdge("open", <<d>>)

IterNext(i) ==
    /\ ~its[i].done
    /\ LET d == its[i].d  p == its[i].pos + 1 IN
       IF p <= Len(Model(d))
       THEN /\ Len(heap) < MaxObjs
            /\ IF SharedIterObject /\ its[i].obj # 0
               THEN /\ heap' = [heap EXCEPT ![its[i].obj] = Obj(d, p)]
                    /\ its' = [its EXCEPT ![i].pos = p]
                    /\ last' = [op |-> "next", ret |-> its[i].obj, d |-> d, pos |-> p]
               ELSE /\ heap' = Append(heap, Obj(d, p))
                    /\ its' = [its EXCEPT ![i].pos = p, ![i].obj = IF @ = 0 THEN Len(heap) + 1 ELSE @]
                    /\ last' = [op |-> "next", ret |-> Len(heap) + 1, d |-> d, pos |-> p]
       ELSE /\ its' = [its EXCEPT ![i].done = TRUE]
            /\ last' = [op |-> "stop", ret |-> 0, d |-> d, pos |-> p]
            /\ UNCHANGED heap
    /\ CEdge("next", <<i>>)

Mutate(o, kind) ==
    /\ ~heap[o].mut
    /\ heap' = [heap EXCEPT ![o].val = Mut(@, kind), ![o].mut = TRUE]
    /\ last' = [op |-> "mutate", ret |-> o, d |-> heap[o].d, pos |-> heap[o].pos]
    /\ UNCHANGED its
    /\ CEdge("mutate", <<o, kind>>)

\* a call that fails inside the caller's own line source: his exception comes out, nothing is handed out or changed
Faulted(op, d, at) ==
    /\ heap' = IF FaultSharesStorage /\ \E o \in 1..Len(heap) : heap[o].d = d
               THEN LET o == CHOOSE o \in 1..Len(heap) : heap[o].d = d IN [heap EXCEPT ![o].val = Tail(@)]
               ELSE heap
    /\ UNCHANGED its
    /\ last' = [op |-> "fault", ret |-> 0, d |-> d, pos |-> 0]
    /\ CEdge(op, <<d, at>>)
ParseFault(d, at) == Faulted("parse_fault", d, at)
ListFault(d, at)  == Faulted("list_fault", d, at)

CNext == /\ UNCHANGED vars
         /\ \/ \E d \in 1..NDocs : ParseOneCall(d) \/ IterOpen(d)
            \/ \E i \in 1..Len(its) : IterNext(i)
            \/ \E o \in 1..Len(heap), kind \in Kinds : Mutate(o, kind)
            \/ \E d \in 1..NDocs, at \in FaultPos : ParseFault(d, at) \/ ListFault(d, at)
CSpec == CInit /\ [][CNext]_<<vars, cvars>>

ReturnedFresh == last.op \in {"parse", "next"} =>
                    /\ heap[last.ret].val = Model(last.d)[last.pos]
                    /\ ~heap[last.ret].mut
FreshIdentity == [][last'.op \in {"parse", "next"} => last'.ret = Len(heap) + 1]_<<vars, cvars>>
NoSpontaneousChange == [][\A o \in 1..Len(heap) : heap'[o] # heap[o] => (last'.op = "mutate" /\ last'.ret = o)]_<<vars, cvars>>
FaultsChangeNothing == [][last'.op = "fault" => (heap' = heap /\ its' = its)]_<<vars, cvars>>
\* the two paragraphs of document 1 carry the same names: they must still be two contents
SameNamesDistinct == LET m == Model(1) IN /\ [i \in 1..Len(m[1]) |-> m[1][i].k] = [i \in 1..Len(m[2]) |-> m[2][i].k]
                                           /\ m[1] # m[2]
DocsLine == Emit => PrintT(<<"DOCS", ToJson([d \in 1..NDocs |-> [doc |-> CDoc(d), lines |-> Dump(CDoc(d)), parse |-> Model(d)]])>>)
ASSUME DocsLine
=============================================================================
