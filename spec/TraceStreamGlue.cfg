CONSTANTS
  MaxStream = 0
  MaxContent = 0
  Emit = FALSE
  Bug = "none"
SPECIFICATION TSpec
INVARIANT TInv
CHECK_DEADLOCK FALSE
