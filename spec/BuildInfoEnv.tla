----------------------------- MODULE BuildInfoEnv -----------------------------
(***************************************************************************)
(* X03 (b) -- BuildInfo.get_environment() / BuildInfo._env_deserialise     *)
(* (lib/debian/deb822.py): the Environment field of a .buildinfo file.     *)
(*                                                                         *)
(* STATEMENT (docstrings of get_environment / _env_deserialise,            *)
(* deb-buildinfo(5): "each environment variable followed by an equal sign  *)
(* and the variable's quoted value, using double quotes, and backslashes   *)
(* escaped (\\)"; the repository's test: a raw newline inside the quotes   *)
(* is part of the value):                                                  *)
(*  The text is a white-space separated list of  NAME="value"  items.      *)
(*  Inside the quotes \" stands for " and \\ for \, every other character  *)
(*  (white space and = included) stands for itself.  _env_deserialise      *)
(*  yields the (name, value) pairs in order; get_environment returns them  *)
(*  as a dict ({} when the field is absent), a fresh one per call.         *)
(*  * Inverse of the documented quoting: for every list of pairs with      *)
(*    names over [A-Za-z0-9_]+ and arbitrary values, parsing               *)
(*    Serialise(pairs) = "\n NAME=\"escaped value\"" ... gives the pairs.  *)
(*  * Every malformed text is rejected with ValueError, never silently     *)
(*    mis-parsed or truncated: a character other than " after NAME= ; the  *)
(*    text ending inside an item (in the name, after the =, inside the     *)
(*    quotes, after a backslash); an item without a name (="v").           *)
(* Unspecified (any outcome accepted): names with characters outside       *)
(* [A-Za-z0-9_] ("no defined quoting rules for the variable names"); an    *)
(* item that follows a closing quote without white space; a backslash      *)
(* followed by anything but " or \ (dpkg-genbuildinfo emits raw            *)
(* backslashes, the man page does not define them); white space other than *)
(* space / tab / newline outside the quotes; duplicate names for           *)
(* get_environment.                                                        *)
(*                                                                         *)
(* Text is a sequence of code points.  The deserialiser is the character   *)
(* level state machine of the code (one action per branch of its loop):    *)
(* modes ws / name / quote / value / esc (+ err, raised), EnvStep consumes *)
(* one character, EnvEnd is the end of the text.  Operators take the set d *)
(* of KNOWN-DEFECT switches explicitly; d = {} is the statement:           *)
(*   "eof"     the ValueError for a text ending inside an item is built    *)
(*             but not raised: the incomplete item is dropped silently;    *)
(*   "nobs"    \\ inside the quotes raises ValueError;                     *)
(*   "noname"  = where a name should start begins a name (the check        *)
(*             `name == ""` of the code is unreachable).                   *)
(*                                                                         *)
(* Model checking: every text over Alphabet of at most MaxLen characters   *)
(* (Next appends one character; a raised error is final and a text in the  *)
(* unspecified zone is not extended: all its extensions are).  Invariants: *)
(* RunAgrees, RoundTrip, EndsClean, NamesValid, Lossless, Scalable,        *)
(* Compositional, ResetsBetweenItems, OutIsAppendOnly (these justify the size-stressed concretizations   *)
(* of the harness: a character of a self-looping class may stand for a run *)
(* of such characters, and a text that ends between items may be followed  *)
(* by any other text; the first two are checked for the statement and for the model *)
(* with every known defect switched on = the pinned code).                 *)
(* Spec-level negative controls (each tried; x03.py re-runs them):         *)
(*   Defects = {"eof"} -> EndsClean, {"nobs"} -> RoundTrip,                *)
(*   {"noname"} -> NamesValid.                                             *)
(***************************************************************************)
EXTENDS Integers, Sequences, FiniteSets, TLC, Json

CONSTANTS Alphabet,   \* code points the bounded texts are made of
          MaxLen,     \* longest text
          Defects,    \* known-defect switches active in the state machine
          Emit        \* print CASE lines

VARIABLES inp,        \* the text consumed so far
          est         \* state of the deserialiser after it
evars == <<inp, est>>

EnvKnown == {"eof", "nobs", "noname"}

----------------------------------------------------------------------------
\* characters

EQ == 61   DQ == 34   BS == 92
EnvClass(c) ==
   IF c = EQ THEN "eq"
   ELSE IF c = DQ THEN "dq"
   ELSE IF c = BS THEN "bs"
   ELSE IF c = 32 \/ c = 9 \/ c = 10 THEN "ws"
   ELSE IF (c >= 48 /\ c <= 57) \/ (c >= 65 /\ c <= 90) \/ (c >= 97 /\ c <= 122) \/ c = 95 THEN "nm"
   \* str.isspace() beyond space / tab / newline
   ELSE IF \/ (c >= 11 /\ c <= 13) \/ (c >= 28 /\ c <= 31) \/ c = 133 \/ c = 160 \/ c = 5760
           \/ (c >= 8192 /\ c <= 8202) \/ c = 8232 \/ c = 8233 \/ c = 8239 \/ c = 8287 \/ c = 12288 THEN "xs"
   ELSE "ot"

----------------------------------------------------------------------------
\* the deserialiser (pure; re-used by TraceX03Env)

EnvInit == [mode |-> "ws", name |-> <<>>, value |-> <<>>, out |-> <<>>, fresh |-> FALSE, unspec |-> FALSE]
\* fresh: the previous character was a closing quote

EnvStep(d, st, c) ==
   LET cl == EnvClass(c) IN
   CASE st.mode = "err" -> st
     [] st.mode = "ws" ->
          IF cl = "ws" THEN [st EXCEPT !.fresh = FALSE]                       \* ignorable white space
          ELSE IF cl = "xs" THEN [st EXCEPT !.fresh = FALSE, !.unspec = TRUE] \* exotic white space
          ELSE IF cl = "eq" /\ "noname" \notin d THEN [st EXCEPT !.mode = "err"]   \* variable name not found
          ELSE [st EXCEPT !.mode = "name", !.name = <<c>>, !.fresh = FALSE,
                          !.unspec = @ \/ st.fresh \/ cl \notin {"nm", "eq"}]
     [] st.mode = "name" ->
          IF cl = "eq" THEN [st EXCEPT !.mode = "quote", !.value = <<>>]
          ELSE [st EXCEPT !.name = Append(@, c), !.unspec = @ \/ cl # "nm"]
     [] st.mode = "quote" ->
          IF cl = "dq" THEN [st EXCEPT !.mode = "value"]
          ELSE [st EXCEPT !.mode = "err"]                                     \* begin quote not found
     [] st.mode = "value" ->
          IF cl = "bs" THEN [st EXCEPT !.mode = "esc"]
          ELSE IF cl = "dq" THEN [st EXCEPT !.mode = "ws", !.fresh = TRUE, !.name = <<>>, !.value = <<>>,
                                            !.out = Append(@, [name |-> st.name, value |-> st.value])]
          ELSE [st EXCEPT !.value = Append(@, c)]
     [] st.mode = "esc" ->
          IF cl = "dq" THEN [st EXCEPT !.mode = "value", !.value = Append(@, c)]
          ELSE IF cl = "bs" THEN (IF "nobs" \in d THEN [st EXCEPT !.mode = "err"]
                                  ELSE [st EXCEPT !.mode = "value", !.value = Append(@, c)])
          ELSE [st EXCEPT !.mode = "err", !.unspec = TRUE]                    \* undefined escape

\* the end of the text: [k |-> "ok", out] / [k |-> "ValueError"] / [k |-> "unspec"]
EnvO(k, out) == [k |-> k, out |-> out]
EnvEnd(d, st) ==
   IF st.unspec THEN EnvO("unspec", <<>>)
   ELSE IF st.mode = "err" THEN EnvO("ValueError", <<>>)
   ELSE IF st.mode = "ws" THEN EnvO("ok", st.out)
   ELSE IF "eof" \in d THEN EnvO("ok", st.out)
   ELSE EnvO("ValueError", <<>>)                                              \* end quote not found

RECURSIVE EnvRunFrom(_, _, _, _)
EnvRunFrom(d, st, s, i) == IF i > Len(s) THEN st ELSE EnvRunFrom(d, EnvStep(d, st, s[i]), s, i + 1)
EnvRun(d, s)     == EnvRunFrom(d, EnvInit, s, 1)
EnvOutcome(d, s) == EnvEnd(d, EnvRun(d, s))

\* get_environment: dict(pairs); duplicate names are unspecified
EnvNamesDistinct(out) == \A i, j \in 1..Len(out) : out[i].name = out[j].name => i = j
EnvDict(o) == IF o.k = "ok" /\ ~EnvNamesDistinct(o.out) THEN EnvO("unspec", <<>>) ELSE o

\* the documented quoting (dpkg-genbuildinfo layout: every item on its own line "\n NAME=...")
RECURSIVE EnvEsc(_)
EnvEsc(v) == IF v = <<>> THEN <<>>
             ELSE (IF Head(v) \in {BS, DQ} THEN <<BS, Head(v)>> ELSE <<Head(v)>>) \o EnvEsc(Tail(v))
EnvSer1(p) == <<10, 32>> \o p.name \o <<EQ, DQ>> \o EnvEsc(p.value) \o <<DQ>>
RECURSIVE EnvSer(_)
EnvSer(ps) == IF ps = <<>> THEN <<>> ELSE EnvSer1(Head(ps)) \o EnvSer(Tail(ps))

----------------------------------------------------------------------------
\* the bounded state machine: one action per branch of the loop of _env_deserialise

Feed(c) == inp' = Append(inp, c) /\ est' = EnvStep(Defects, est, c)
In(mode, c, classes) == est.mode = mode /\ EnvClass(c) \in classes

WsSkip(c)       == In("ws", c, {"ws", "xs"}) /\ Feed(c)
WsNoName(c)     == In("ws", c, {"eq"}) /\ Feed(c)                     \* raises (defect noname: starts a name)
WsStartName(c)  == In("ws", c, {"nm", "dq", "bs", "ot"}) /\ Feed(c)
NameChar(c)     == In("name", c, {"nm", "ws", "xs", "dq", "bs", "ot"}) /\ Feed(c)
NameEnd(c)      == In("name", c, {"eq"}) /\ Feed(c)
QuoteOpen(c)    == In("quote", c, {"dq"}) /\ Feed(c)
QuoteMissing(c) == In("quote", c, {"eq", "bs", "ws", "nm", "xs", "ot"}) /\ Feed(c)   \* raises
ValueChar(c)    == In("value", c, {"eq", "ws", "nm", "xs", "ot"}) /\ Feed(c)
ValueEscape(c)  == In("value", c, {"bs"}) /\ Feed(c)
ValueClose(c)   == In("value", c, {"dq"}) /\ Feed(c)                  \* yields (name, value)
EscQuote(c)     == In("esc", c, {"dq"}) /\ Feed(c)
EscBackslash(c) == In("esc", c, {"bs"}) /\ Feed(c)                    \* (defect nobs: raises)
EscOther(c)     == In("esc", c, {"eq", "ws", "nm", "xs", "ot"}) /\ Feed(c)           \* raises; unspecified

Init == inp = <<>> /\ est = EnvInit
Next == /\ Len(inp) < MaxLen
        /\ ~est.unspec            \* every extension of an unspecified text is unspecified
        /\ \E c \in Alphabet :
              \/ WsSkip(c) \/ WsNoName(c) \/ WsStartName(c) \/ NameChar(c) \/ NameEnd(c)
              \/ QuoteOpen(c) \/ QuoteMissing(c) \/ ValueChar(c) \/ ValueEscape(c) \/ ValueClose(c)
              \/ EscQuote(c) \/ EscBackslash(c) \/ EscOther(c)
Spec == Init /\ [][Next]_evars

----------------------------------------------------------------------------
\* what is checked in every state (= for every text of the bound, read as a complete text)

Here == EnvEnd(Defects, est)

TypeOK == /\ est.mode \in {"ws", "name", "quote", "value", "esc", "err"}
          /\ \A i \in 1..Len(inp) : inp[i] \in Alphabet

\* the incremental machine and the recursive run (used by the trace module) are the same function
RunAgrees == est = EnvRun(Defects, inp)

\* inverse of the documented quoting: every text of the bound, taken as a VALUE, comes back
\* (alone, and twice under two names), and so does every accepted list of pairs
RoundTrip ==
   LET A  == [name |-> <<65>>, value |-> inp]
       B  == [name |-> <<66, 95, 49>>, value |-> inp]
   IN /\ EnvOutcome(Defects, EnvSer(<<A>>)) = EnvO("ok", <<A>>)
      /\ EnvOutcome(Defects, EnvSer(<<A, B>>)) = EnvO("ok", <<A, B>>)
      /\ Here.k = "ok" => EnvOutcome(Defects, EnvSer(Here.out)) = Here

\* an accepted text ends between items: its last non-white character is a closing quote
RECURSIVE LastNonWs(_)
LastNonWs(s) == IF s = <<>> THEN 0
                ELSE IF EnvClass(s[Len(s)]) = "ws" THEN LastNonWs(SubSeq(s, 1, Len(s) - 1)) ELSE s[Len(s)]
EndsClean == Here.k = "ok" => LastNonWs(inp) \in {0, DQ}

\* accepted names are non-empty and made of name characters
NamesValid == Here.k = "ok" =>
                 \A i \in 1..Len(Here.out) :
                    /\ Here.out[i].name # <<>>
                    /\ \A j \in 1..Len(Here.out[i].name) : EnvClass(Here.out[i].name[j]) = "nm"

\* nothing of an accepted text is dropped: apart from white space between the items it IS the
\* serialisation of what was returned
RECURSIVE StripOuterWs(_, _)
StripOuterWs(s, inq) ==      \* drop white space outside the quotes (inq: 0 outside, 1 inside, 2 after a backslash)
   IF s = <<>> THEN <<>>
   ELSE LET c == Head(s) IN
        IF inq = 0 THEN (IF EnvClass(c) = "ws" THEN StripOuterWs(Tail(s), 0)
                         ELSE <<c>> \o StripOuterWs(Tail(s), IF c = DQ THEN 1 ELSE 0))
        ELSE IF inq = 1 THEN <<c>> \o StripOuterWs(Tail(s), IF c = BS THEN 2 ELSE IF c = DQ THEN 0 ELSE 1)
        ELSE <<c>> \o StripOuterWs(Tail(s), 1)
Lossless == Here.k = "ok" => StripOuterWs(inp, 0) = StripOuterWs(EnvSer(Here.out), 0)

\* size: doubling every character of a self-looping class (name character, other character,
\* white space) doubles it in the names / values and changes nothing else -- for every defect model
DblC(c) == IF EnvClass(c) \in {"nm", "ot", "ws"} THEN <<c, c>> ELSE <<c>>
RECURSIVE Dbl(_)
Dbl(s) == IF s = <<>> THEN <<>> ELSE DblC(Head(s)) \o Dbl(Tail(s))
DblOut(o) == [o EXCEPT !.out = [i \in 1..Len(o.out) |-> [name |-> Dbl(o.out[i].name), value |-> Dbl(o.out[i].value)]]]
Scalable == \A d \in {{}, EnvKnown} : EnvOutcome(d, Dbl(inp)) = DblOut(EnvOutcome(d, inp))

\* composition: a text on which no defect model differs from the statement and that is accepted
\* may be followed (after white space) by any text; the pairs are concatenated
Clean(s) == /\ EnvOutcome({}, s).k = "ok"
            /\ \A d \in SUBSET EnvKnown : EnvOutcome(d, s) = EnvOutcome({}, s)
Probes == {<<>>, <<65, EQ, DQ, 47, DQ>>, <<65, EQ, DQ, BS, BS, DQ>>, <<65, EQ, DQ, 47>>, <<65>>, <<65, EQ, 47>>,
           <<EQ, DQ, DQ>>, <<65, EQ, DQ, BS, 47, DQ>>, <<65, EQ, DQ, DQ, 66, EQ, DQ, DQ>>}
Prepend(out, o) == IF o.k = "ok" THEN [o EXCEPT !.out = out \o @] ELSE o
Compositional ==
   Clean(inp) => \A d \in {{}, EnvKnown} : \A t \in Probes :
                    EnvOutcome(d, inp \o <<10, 32>> \o t) = Prepend(EnvOutcome({}, inp).out, EnvOutcome(d, t))
\* ... and for EVERY following text and every defect model, by induction from two facts: after a
\* clean text and white space the machine is in its initial state except for the pairs yielded so
\* far, and no step reads those pairs (it only appends to them)
ResetsBetweenItems ==
   Clean(inp) => \A d \in SUBSET EnvKnown :
                    EnvRun(d, inp \o <<10, 32>>) = [EnvInit EXCEPT !.out = EnvOutcome({}, inp).out]
OutIsAppendOnly ==
   LET pre == <<[name |-> <<90>>, value |-> <<47>>]>>
       Pfx(st) == [st EXCEPT !.out = pre \o @]
   IN \A d \in SUBSET EnvKnown : \A c \in Alphabet :
         /\ EnvStep(d, Pfx(est), c) = Pfx(EnvStep(d, est, c))
         /\ EnvEnd(d, Pfx(est)) = Prepend(pre, EnvEnd(d, est))

----------------------------------------------------------------------------
\* emission for the harness (spec -> code): one CASE per text, with the outcome of the statement
\* and of every known-defect model that differs from it

DName(d) == [eof |-> "eof" \in d, nobs |-> "nobs" \in d, noname |-> "noname" \in d]
RECURSIVE SetToSeq(_)
SetToSeq(S) == IF S = {} THEN <<>> ELSE LET m == CHOOSE x \in S : TRUE IN <<m>> \o SetToSeq(S \ {m})
EmitCase ==
   Emit => LET e == EnvOutcome({}, inp)
               alts == {da \in {[d |-> d, o |-> EnvOutcome(d, inp)] : d \in (SUBSET EnvKnown) \ {{}}} : da.o # e}
           IN PrintT(<<"CASE", ToJson([inp |-> inp, exp |-> e, clean |-> (e.k = "ok" /\ alts = {}),
                                       distinct |-> EnvNamesDistinct(e.out),
                                       alts |-> SetToSeq({[d |-> DName(da.d), o |-> da.o] : da \in alts})])>>)
=============================================================================
