--------------------------- MODULE VersionString ---------------------------
(***************************************************************************)
(* C14 -- Debian version strings as text over CODE POINTS, and the version *)
(* object of debian.debian_support (BaseVersion / NativeVersion / Version).*)
(*                                                                         *)
(* Reference layer (the oracle of the check; DESIGN.md D2 and section 5):  *)
(*   Decompose(s)  [epoch, upstream, revision]; a missing epoch / revision *)
(*                 is Absent (= <<-1>>, -1 is no code point), which is     *)
(*                 distinct from the empty text <<>>;                      *)
(*   Recompose(d)  the inverse;  Valid(s);  Unspec(s) (the zone in which   *)
(*                 the statement is ambiguous: executed, never judged);    *)
(*   object state  obj = [full, epoch, upstream, revision] (NoObj before a *)
(*                 successful construction) with the actions Construct,    *)
(*                 SetFull, SetEpoch, SetUpstream, SetRevision, Copy:      *)
(*                 "recompose with the new component; if that text is      *)
(*                 valid the object becomes its decomposition, otherwise   *)
(*                 ValueError and the object stays exactly as it was".     *)
(* Implementation layer (a transcription of the code, used only to model-  *)
(* check the design, never as oracle): ReMatch = what the backtracking     *)
(* regex re_valid_version matches (greedy optional epoch, LAZY upstream,   *)
(* optional "-revision", end anchor), Accept = match + the "colon needs an *)
(* epoch" test of _set_full_version, ImplAssign = __setattr__ (assign the  *)
(* private attribute, _update_full_version with its truthiness test on the *)
(* revision, re-validate, restore + recompute on failure).                 *)
(*                                                                         *)
(* Configurations:                                                         *)
(*   MC_VersionString_bnd*.cfg  BndSpec: every string up to MaxLen over    *)
(*       Alphabet is built piecewise (one state per string); invariants    *)
(*       AcceptExact, DecomposeAgree, Lossless, ObjConsistent; prints one  *)
(*       CASE line per string (expected verdict and decomposition).        *)
(*   MC_VersionString_lts*.cfg  LtsSpec: objects reachable from LtsStart   *)
(*       under every assignment of LtsValues, closed up to Len(full) <=    *)
(*       MaxLen; invariants KeyFresh, ObjConsistent, ImplRefines, property *)
(*       AssignOrRollback; prints the complete LTS as EDGE lines.          *)
(* Spec-level negative controls (constants switching in the buggy code):   *)
(*   DollarAnchor  = TRUE  ('$' instead of '\Z': a trailing LF is accepted)*)
(*                         -> AcceptExact violated by <<49, 10>>,          *)
(*   UnicodeDigits = TRUE  ('\d' instead of '[0-9]' in the epoch)          *)
(*                         -> AcceptExact violated by <<1635, 58, 49>>,    *)
(*   NoRollback    = TRUE  (failed assignment keeps the private attribute) *)
(*                         -> ImplRefines violated,                        *)
(*   StaleKey      = TRUE  (an assignment keeps the memoised comparison    *)
(*                         key of the old version) -> KeyFresh violated.   *)
(*   CopySharesParts = TRUE (Version(v) shares its mutable parts with v:   *)
(*                         an assignment to one rewrites the other)        *)
(*                         -> CopyIndependent violated.                    *)
(* All five were run and do make TLC report the violation (c14.py runs     *)
(* them in every check and fails with exit 2 if one of them passes).       *)
(*                                                                         *)
(* Object store with two objects: Copy (Version(v), copy.copy, pickle ...) *)
(* makes a second object; `kept` is the one of the pair the history does   *)
(* NOT continue on.  CopyIndependent: whatever is later done to `obj`      *)
(* (accepted, rejected, unspecified), `kept` stays exactly what it was.    *)
(* MC_VersionString_pair*.cfg explores all (obj, kept) pairs; the emitting *)
(* LTS configuration identifies states by obj alone (kept is history).     *)
(*                                                                         *)
(* The object carries a fifth, derived component `key`: the parsed tuple   *)
(* its comparisons and its hash work on (<<epoch, upstream, revision>>).   *)
(* KeyFresh says the whole object state is a function of `full` alone: no  *)
(* memoised / cached derived state survives an assignment.  The binding    *)
(* observes `key` behaviourally: v must be indistinguishable (==, <, >,    *)
(* hash, str, attributes, version_compare, order against fixed probes)     *)
(* from a fresh object built from v.full_version.                          *)
(***************************************************************************)
EXTENDS Naturals, Integers, Sequences, FiniteSets, TLC, Json

CONSTANTS Alphabet,       \* bnd: code points strings are built from
          MaxLen,         \* bnd: longest string; lts: longest full version kept
          StartStrings,   \* lts: texts offered to Construct / SetFull
          AssignValues,   \* lts: values offered to the component assignments (Absent = None)
          Emit,           \* TRUE: print CASE / EDGE lines
          DollarAnchor, UnicodeDigits, NoRollback,     \* negative controls, FALSE in property runs
          StaleKey, CopySharesParts

VARIABLES inp,            \* bnd: the string under construction (<<>> in lts)
          obj,            \* the version object the history continues on
          kept,           \* the other object of the last Copy (NoObj before the first Copy)
          res             \* outcome of the last call: "none" "ok" "ValueError" "unspec"

vars == <<inp, obj, kept, res>>

----------------------------------------------------------------------------
\* code points and classes
Dot == 46   Plus == 43   Tilde == 126   Hyphen == 45   Colon == 58   LF == 10
IsDigit(c)   == c \in 48..57
IsLetter(c)  == c \in 65..90 \/ c \in 97..122
IsRevChar(c) == IsDigit(c) \/ IsLetter(c) \/ c \in {Dot, Plus, Tilde}
IsVerChar(c) == IsRevChar(c) \/ c \in {Hyphen, Colon}      \* everything else is foreign

VAll(s, P(_)) == \A i \in 1..Len(s) : P(s[i])
VHas(s, c)    == \E i \in 1..Len(s) : s[i] = c
VFirstIdx(s, c) == IF VHas(s, c) THEN CHOOSE i \in 1..Len(s) : s[i] = c /\ \A j \in 1..(i - 1) : s[j] # c ELSE 0
VLastIdx(s, c)  == IF VHas(s, c) THEN CHOOSE i \in 1..Len(s) : s[i] = c /\ \A j \in (i + 1)..Len(s) : s[j] # c ELSE 0

Absent == <<-1>>

----------------------------------------------------------------------------
\* reference layer: decomposition
\* an epoch is a non-empty run of ASCII digits followed by the FIRST colon
VHasEpoch(s) == LET i == VFirstIdx(s, Colon) IN i > 1 /\ \A j \in 1..(i - 1) : IsDigit(s[j])
VRest(s)     == IF VHasEpoch(s) THEN SubSeq(s, VFirstIdx(s, Colon) + 1, Len(s)) ELSE s
\* the revision is what follows the LAST hyphen
Decompose(s) == LET r == VRest(s)
                    h == VLastIdx(r, Hyphen)
                IN [epoch    |-> IF VHasEpoch(s) THEN SubSeq(s, 1, VFirstIdx(s, Colon) - 1) ELSE Absent,
                    upstream |-> IF h = 0 THEN r ELSE SubSeq(r, 1, h - 1),
                    revision |-> IF h = 0 THEN Absent ELSE SubSeq(r, h + 1, Len(r))]
Recompose(d) == (IF d.epoch = Absent THEN <<>> ELSE d.epoch \o <<Colon>>)
                \o d.upstream
                \o (IF d.revision = Absent THEN <<>> ELSE <<Hyphen>> \o d.revision)

\* D2: [0-9]+: ? then a non-empty upstream over [A-Za-z0-9.+~-] (and ':' only with an epoch),
\* then, if there is a hyphen, a non-empty revision over [A-Za-z0-9+.~] after the last one
Valid(s) == LET d == Decompose(s) IN
            /\ VAll(s, IsVerChar)
            /\ (d.epoch = Absent => ~VHas(s, Colon))
            /\ d.upstream # <<>>
            /\ (d.revision # Absent => d.revision # <<>> /\ VAll(d.revision, IsRevChar))

\* D2: over the version characters, "the text after the last hyphen is empty or contains ':',
\* or the text before it is empty" is accepted by the code, rejected by dpkg and not decided by
\* the statement.  (A string with a foreign character is invalid, whatever its shape.)
Unspec(s) == LET d == Decompose(s) IN
             /\ VAll(s, IsVerChar)
             /\ d.revision # Absent
             /\ (d.revision = <<>> \/ VHas(d.revision, Colon) \/ d.upstream = <<>>)

----------------------------------------------------------------------------
\* reference layer: the object
\* the derived comparison key of a version text: what comparisons and hash are computed from
VKey(s)  == LET d == Decompose(s) IN <<d.epoch, d.upstream, d.revision>>
NoObj    == [full |-> Absent, epoch |-> Absent, upstream |-> Absent, revision |-> Absent,
             key |-> <<Absent, Absent, Absent>>]
ObjOf(s) == LET d == Decompose(s) IN [full |-> s, epoch |-> d.epoch, upstream |-> d.upstream, revision |-> d.revision,
                                      key |-> VKey(s)]
Attrs(o) == [full |-> o.full, epoch |-> o.epoch, upstream |-> o.upstream, revision |-> o.revision]
Comps    == {"epoch", "upstream", "revision"}
VWith(o, comp, v) == [epoch    |-> IF comp = "epoch" THEN v ELSE o.epoch,
                      upstream |-> IF comp = "upstream" THEN v ELSE o.upstream,
                      revision |-> IF comp = "revision" THEN v ELSE o.revision]

\* Version(s) on no object / v.full_version = s on object o
FullOutcome(o, s) == IF Unspec(s) THEN [res |-> "unspec", obj |-> o]
                     ELSE IF Valid(s) THEN [res |-> "ok", obj |-> ObjOf(s)]
                     ELSE [res |-> "ValueError", obj |-> o]
\* v.<comp> = val; None for the upstream and "" for the revision are not decided by the statement
AssignText(o, comp, v)    == Recompose(VWith(o, comp, v))
AssignOutcome(o, comp, v) == IF (comp = "upstream" /\ v = Absent) \/ (comp = "revision" /\ v = <<>>)
                             THEN [res |-> "unspec", obj |-> o]
                             ELSE FullOutcome(o, AssignText(o, comp, v))

----------------------------------------------------------------------------
\* implementation layer: the regular expression
\*   ^((?P<epoch>[0-9]+):)?(?P<upstream_version>[A-Za-z0-9.+:~-]+?)(-(?P<debian_revision>[A-Za-z0-9+.~]+))?\Z
LeastOf(S)    == CHOOSE x \in S : \A y \in S : x <= y
GreatestOf(S) == CHOOSE x \in S : \A y \in S : x >= y
IsUniDigit(c) == c \in 1632..1641 \/ c \in 2406..2415 \/ c \in 65296..65305 \/ c \in 3046..3055 \/ c \in 120782..120831
ReDigit(c)    == IsDigit(c) \/ (UnicodeDigits /\ IsUniDigit(c))
\* positions (number of characters consumed) at which the end anchor matches
ReEnds(s)     == {Len(s)} \cup (IF DollarAnchor /\ Len(s) >= 1 /\ s[Len(s)] = LF THEN {Len(s) - 1} ELSE {})
NoMatch       == [ok |-> FALSE, epoch |-> Absent, upstream |-> Absent, revision |-> Absent]
\* upstream starts at `from`; lazy: the shortest upstream after which "(-revision)? end" matches;
\* the optional group is greedy: a revision is preferred when one is possible
ReRevEnds(s, u) == {e \in ReEnds(s) : /\ u + 1 <= Len(s) /\ s[u + 1] = Hyphen
                                       /\ e >= u + 2
                                       /\ \A j \in (u + 2)..e : IsRevChar(s[j])}
ReTail(s, from, ep) ==
    LET ups == {u \in from..Len(s) : /\ \A j \in from..u : IsVerChar(s[j])
                                     /\ (ReRevEnds(s, u) # {} \/ u \in ReEnds(s))}
    IN IF ups = {} THEN NoMatch
       ELSE LET u == LeastOf(ups) IN
            [ok |-> TRUE, epoch |-> ep, upstream |-> SubSeq(s, from, u),
             revision |-> IF ReRevEnds(s, u) # {} THEN SubSeq(s, u + 2, GreatestOf(ReRevEnds(s, u))) ELSE Absent]
\* the epoch group is tried first (greedy digits: only the maximal run can be followed by ':'),
\* the regex falls back to "no epoch" when the rest cannot match
ReMatch(s) == LET runs == {k \in 0..Len(s) : \A j \in 1..k : ReDigit(s[j])}
                  k == GreatestOf(runs)
                  withEp == IF k >= 1 /\ k + 1 <= Len(s) /\ s[k + 1] = Colon
                            THEN ReTail(s, k + 2, SubSeq(s, 1, k)) ELSE NoMatch
              IN IF withEp.ok THEN withEp ELSE ReTail(s, 1, Absent)
\* _set_full_version: match, then "no epoch => no colon in the upstream"
Accept(s)  == LET m == ReMatch(s) IN m.ok /\ ~(m.epoch = Absent /\ VHas(m.upstream, Colon))
ImplObj(s) == LET m == ReMatch(s) IN [full |-> s, epoch |-> m.epoch, upstream |-> m.upstream, revision |-> m.revision,
                                      key |-> <<m.epoch, m.upstream, m.revision>>]
ImplDecompose(s) == LET m == ReMatch(s) IN [epoch |-> m.epoch, upstream |-> m.upstream, revision |-> m.revision]
ImplSetFull(o, s) == IF Accept(s) THEN [res |-> "ok", obj |-> ImplObj(s)] ELSE [res |-> "ValueError", obj |-> o]
\* _update_full_version: note the truthiness test on the revision
ImplText(p) == (IF p.epoch # Absent THEN p.epoch \o <<Colon>> ELSE <<>>)
               \o p.upstream
               \o (IF p.revision # Absent /\ p.revision # <<>> THEN <<Hyphen>> \o p.revision ELSE <<>>)
\* __setattr__: private := value; recompute + re-validate; on ValueError restore and recompute
ImplAssign(o, comp, v) ==
    LET p == VWith(o, comp, v)
        t == ImplText(p)
    IN IF Accept(t) THEN [res |-> "ok", obj |-> ImplObj(t)]
       ELSE [res |-> "ValueError",
             obj |-> IF NoRollback THEN [full |-> o.full, epoch |-> p.epoch, upstream |-> p.upstream, revision |-> p.revision,
                                         key |-> o.key]
                     ELSE ImplObj(ImplText(o))]

----------------------------------------------------------------------------
\* bounded enumeration: one state per string
CaseLine(s) == Emit => PrintT(<<"CASE", ToJson([s |-> s, valid |-> Valid(s), unspec |-> Unspec(s), d |-> Decompose(s)])>>)
Built(s)    == LET o == FullOutcome(NoObj, s) IN obj' = o.obj /\ res' = o.res

BndInit == /\ inp = <<>> /\ kept = NoObj
           /\ obj = FullOutcome(NoObj, <<>>).obj /\ res = FullOutcome(NoObj, <<>>).res
           /\ CaseLine(<<>>)
BndNext == /\ Len(inp) < MaxLen
           /\ \E c \in Alphabet : inp' = Append(inp, c)
           /\ Built(inp')
           /\ UNCHANGED kept
           /\ CaseLine(inp')
BndSpec == BndInit /\ [][BndNext]_vars

AcceptExact    == ~Unspec(inp) => (Accept(inp) <=> Valid(inp))
DecomposeAgree == (Valid(inp) /\ ~Unspec(inp)) => ImplDecompose(inp) = Decompose(inp)
Lossless       == Recompose(Decompose(inp)) = inp
\* sanity of the reference: a valid string is never in the unspecified zone and vice versa
ZonesDisjoint  == ~(Valid(inp) /\ Unspec(inp))

----------------------------------------------------------------------------
\* the object's labelled transition system
Edge(op, v, o) == Emit => PrintT(<<"EDGE", ToJson([from |-> obj, op |-> op, args |-> <<v>>, res |-> o.res, to |-> o.obj])>>)
\* StaleKey (negative control): an assignment on an existing object keeps the old memoised key
Apply(op, v, o) == /\ obj' = IF StaleKey /\ obj # NoObj /\ op # "copy" THEN [o.obj EXCEPT !.key = obj.key] ELSE o.obj
                   \* CopySharesParts (negative control): the two objects of a Copy share their parts
                   /\ kept' = IF CopySharesParts /\ kept # NoObj THEN obj' ELSE kept
                   /\ res' = o.res /\ UNCHANGED inp /\ Edge(op, v, o)
Fits(s) == Len(s) <= MaxLen

LtsInit == inp = <<>> /\ obj = NoObj /\ kept = NoObj /\ res = "none"

Construct(s)   == obj = NoObj /\ Apply("construct", s, FullOutcome(NoObj, s))
SetFull(s)     == obj # NoObj /\ Apply("full", s, FullOutcome(obj, s))
SetComp(c, v)  == obj # NoObj /\ Fits(AssignText(obj, c, v)) /\ Apply(c, v, AssignOutcome(obj, c, v))
SetEpoch(v)    == SetComp("epoch", v)
SetUpstream(v) == SetComp("upstream", v)
SetRevision(v) == SetComp("revision", v)
\* Version(v) / copy.copy(v) / ...: a second object with the same state; the pair is (obj, kept),
\* the history continues on either of the two (they are equal here; the binding chooses)
Copy           == /\ obj # NoObj
                  /\ obj' = obj /\ kept' = obj /\ res' = "ok" /\ UNCHANGED inp
                  /\ Edge("copy", Absent, [res |-> "ok", obj |-> obj])

LtsNext == \/ \E s \in StartStrings : Construct(s) \/ SetFull(s)
           \/ \E v \in AssignValues : SetEpoch(v) \/ SetUpstream(v) \/ SetRevision(v)
           \/ Copy
LtsSpec == LtsInit /\ [][LtsNext]_vars
ObjView == obj              \* res is an output, inp is constant here, kept is history (see PairView)
PairView == <<obj, kept>>

\* every object that exists is the decomposition of its own valid, specified full text
ObjConsistent == obj # NoObj => /\ Valid(obj.full) /\ ~Unspec(obj.full)
                                /\ Attrs(obj) = Attrs(ObjOf(obj.full))
                                /\ Recompose(obj) = obj.full
\* the object state is a function of `full` alone: the derived comparison key is never stale
KeyFresh      == obj # NoObj => obj.key = VKey(obj.full)
\* "either the recomposed valid version or ValueError leaving the object exactly as it was"
AssignOrRollback == [][\/ res' = "ok" /\ Valid(obj'.full) /\ Attrs(obj') = Attrs(ObjOf(obj'.full))
                       \/ res' \in {"ValueError", "unspec"} /\ Attrs(obj') = Attrs(obj)]_vars
\* the retained object of a Copy is a version of its own ...
KeptConsistent  == kept # NoObj => Valid(kept.full) /\ kept = ObjOf(kept.full)
\* ... and nothing that is done to the other object changes it: kept only changes by a Copy
CopyIndependent == [][kept' # kept => (kept' = obj /\ obj' = obj)]_vars
\* the transcription of the code agrees with the reference wherever the statement decides
ImplRefines ==
    obj # NoObj =>
      /\ \A c \in Comps, v \in AssignValues :
           LET a == AssignOutcome(obj, c, v) IN a.res # "unspec" => ImplAssign(obj, c, v) = a
      /\ \A s \in StartStrings :
           LET a == FullOutcome(obj, s) IN a.res # "unspec" => ImplSetFull(obj, s) = a

----------------------------------------------------------------------------
\* model values for the configurations (cfg files cannot write tuples)
\* 1  1.0  1:2  1-1  1:2-3  a  1~x-1  1:2:3  1-2-3  2+b  0:0  x.1   and some texts that are not versions
LtsStart == { <<49>>, <<49, 46, 48>>, <<49, 58, 50>>, <<49, 45, 49>>, <<49, 58, 50, 45, 51>>, <<97>>,
              <<49, 126, 120, 45, 49>>, <<49, 58, 50, 58, 51>>, <<49, 45, 50, 45, 51>>, <<50, 43, 98>>,
              <<48, 58, 48>>, <<120, 46, 49>>,
              <<>>, <<49, 10>>, <<58, 49>>, <<49, 32>>, <<1635, 58, 49>>, <<49, 45>>, <<97, 58, 49>> }
\* None  ""  "1"  "x"  "1:2"  "a-b"  "e-acute"  "1\n"
LtsValues == { Absent, <<>>, <<49>>, <<120>>, <<49, 58, 50>>, <<97, 45, 98>>, <<233>>, <<49, 10>> }
\* quick two-object configuration: 1  1:2  1-1  1:2-3  a  and two texts that are not versions
PairStart == { <<49>>, <<49, 58, 50>>, <<49, 45, 49>>, <<49, 58, 50, 45, 51>>, <<97>>, <<49, 10>>, <<58, 49>> }
NoStrings == {}
=============================================================================
