\* C03 spec-level negative controls: the harness sets ONE of the two switches to TRUE and
\* requires TLC to report the violation (HashOnString -> HashConsistent, TildeOrderZero -> Agree)
CONSTANTS
  HashOnString = FALSE
  TildeOrderZero = FALSE
  Epochs <- E_two
  Revs <- R_two
  UpChars = {48, 49, 97, 126}
  MaxUp = 2
  Seps = FALSE
  Triples = FALSE
  EmitStride = 0
  EmitOffset = 0
  CheckPos = FALSE
SPECIFICATION Spec
INVARIANT Agree
INVARIANT HashConsistent
CHECK_DEADLOCK FALSE
