\* C04 thorough: <= 3 blocks, <= 3 body lines, <= 2 leading and <= 1 separating blank lines
\* (the thorough tier also runs MC_Changelog_c04_quick.cfg: <= 2 blocks with <= 2 separating blank lines)
CONSTANTS
  Mode = "text"
  Classes = {}
  AEAs = {FALSE}
  MaxLines = 100
  MaxBlocks = 3
  MaxBody = 3
  MaxLead = 2
  MaxSep = 1
  Budget = 0
  MaxEdits = 0
  Bug = "none"
  Emit = TRUE
SPECIFICATION Spec
INVARIANT BookkeepingOK
INVARIANT StrictIffWarn
INVARIANT NoWarning
INVARIANT RoundTrip
INVARIANT BlocksAsWritten
INVARIANT NormalForm
INVARIANT FormsAgree
INVARIANT EmitText
CHECK_DEADLOCK FALSE
