-------------------------- MODULE PkgRelationCount --------------------------
(***************************************************************************)
(* C13 -- the COUNT dimension of the relation grammar.                     *)
(*                                                                         *)
(* The property quantifies over conjunctions, alternatives, architecture   *)
(* lists, restriction formulas and restriction groups of ANY length (an    *)
(* Installed-Build-Depends field of a real .buildinfo file has several     *)
(* hundred conjuncts).  The closed space of PkgRelation has lists of 1..3  *)
(* items; this module states the same invariants for structures in which   *)
(* ONE list level has a large number of items:                             *)
(*                                                                         *)
(*   lvl   which list is long: "conj" (the conjunction), "alt" (the        *)
(*         alternatives of one conjunct), "arch" (the architecture list of *)
(*         one atom), "groups" (the groups of one restriction formula),    *)
(*         "terms" (the terms of one restriction group)                    *)
(*   cnt   its length, from the constant Counts                            *)
(*   fpos  where the long list sits in the surrounding relation (first /   *)
(*         middle / last conjunct or alternative; for "groups" / "terms"   *)
(*         also which group), so that it meets every separator on both     *)
(*         sides                                                           *)
(*                                                                         *)
(* Every list of the grammar is produced by one join of the formatter and  *)
(* consumed by one splitter of the parser (PkgRelation: comma, pipe, blank *)
(* in the architecture list, '>\s*<' in the formula, blank in a group), so *)
(* the five levels cover the five splitters.  The items of the long list   *)
(* cycle through atom kinds (every optional part / bare / version only),   *)
(* plain and negated entries, distinct and IDENTICAL payload ids.          *)
(*                                                                         *)
(* Checked in every state: CountProps = TokensWellFormed, Inverse,         *)
(* NoWarning, Stable of PkgRelation for the long structure; with Emit the  *)
(* state prints a CASE line (structure, expected token string, lvl, cnt)   *)
(* that c13.py replays into the real str / parse_relations like any other  *)
(* case (concretization, key orders, calling conventions, history, the     *)
(* relations property fed through every kind of file object).              *)
(*                                                                         *)
(* Negative control (PkgRelation: SplitLimit, LimitedSplits): a splitter   *)
(* that stops after SplitLimit separators -- re.split(pattern, text, 256), *)
(* the seeded change C13-seedJ handed re.ASCII to maxsplit -- leaves the   *)
(* rest of the text in ONE piece.  With SplitLimit = 256 TLC must report   *)
(* CountProps, and LimitBites (the invariants hold exactly for the lists   *)
(* of at most SplitLimit + 1 items) must hold for every level: the limit   *)
(* is invisible to every list the closed space of PkgRelation has.         *)
(***************************************************************************)
EXTENDS PkgRelation

CONSTANTS Levels,                \* subset of {"conj", "alt", "arch", "groups", "terms"}
          Counts,                \* lengths of the long list
          Positions              \* subset of 1..3

VARIABLES lvl, cnt, fpos
cvars == <<vars, lvl, cnt, fpos>>

----------------------------------------------------------------------------
\* atoms by index: the kind of atom cycles, the ids are the index (atoms stay distinguishable)

FullA(n) == Atom(n, n, [some |-> TRUE, op |-> (n % 5) + 1, ver |-> n],
                 SomeList(<<[e |-> FALSE, id |-> 1], [e |-> TRUE, id |-> 2]>>),
                 SomeList(<<<<[e |-> FALSE, id |-> 1], [e |-> TRUE, id |-> 2]>>, <<[e |-> TRUE, id |-> 3]>>>>))
BareA(n) == Atom(n, 0, NoVer, NoneList, NoneList)
VerA(n)  == Atom(n, 0, [some |-> TRUE, op |-> (n % 5) + 1, ver |-> n], NoneList, NoneList)
KAtom(n) == CASE n % 3 = 1 -> FullA(n) [] n % 3 = 2 -> BareA(n) [] OTHER -> VerA(n)

\* the surrounding relation: three conjuncts <<1, 2>>, <<3, 4, 5>>, <<6>>; the focus atom is the
\* first, the middle one or the last
CtxRel(f) == <<<<f[1], KAtom(2)>>, <<KAtom(3), f[2], KAtom(5)>>, <<f[3]>>>>
FocusIn(a, p) == CtxRel([i \in 1..3 |-> IF i = p THEN a ELSE KAtom(<<1, 4, 6>>[i])])

\* a long list of entries: plain / negated, ids distinct (k = 0) or cycling through 1..k
LongEntries(n, k) == [i \in 1..n |-> [e |-> i % 3 # 0, id |-> IF k = 0 THEN i ELSE ((i - 1) % k) + 1]]
ShortGroup(i) == IF i % 2 = 0 THEN <<[e |-> TRUE, id |-> i]>>
                 ELSE <<[e |-> FALSE, id |-> i], [e |-> TRUE, id |-> ((i - 1) % 5) + 1]>>

LongRel(lv, n, p) ==
   CASE lv = "conj" ->
          \* n conjuncts, every 4th with two alternatives
          [i \in 1..n |-> IF i % 4 = 0 THEN <<KAtom(2 * i - 1), KAtom(2 * i)>> ELSE <<KAtom(2 * i - 1)>>]
     [] lv = "alt" ->
          \* conjunct p of three has n alternatives
          [i \in 1..3 |-> IF i = p THEN [j \in 1..n |-> KAtom(10 + j)]
                          ELSE IF i = 2 THEN <<KAtom(3), KAtom(4)>> ELSE <<KAtom(2 * i)>>]
     [] lv = "arch" ->
          FocusIn([FullA(7) EXCEPT !.a = SomeList(LongEntries(n, 0))], p)
     [] lv = "groups" ->
          \* n groups of one or two terms
          FocusIn([FullA(7) EXCEPT !.r = SomeList([i \in 1..n |-> ShortGroup(i)])], p)
     [] lv = "terms" ->
          \* group p of three has n terms (identical terms recur: ids cycle through 1..7)
          FocusIn([FullA(7) EXCEPT !.r = SomeList([i \in 1..3 |-> IF i = p THEN LongEntries(n, 7) ELSE ShortGroup(i)])],
                  ((p + 1) % 3) + 1)

CInit == /\ lvl \in Levels
         /\ cnt \in Counts
         /\ fpos \in Positions
         /\ (lvl = "conj" => fpos = 1)
         /\ rel = LongRel(lvl, cnt, fpos)
         /\ ctx = "count"
         /\ kord = CanonOrder
CNext == FALSE /\ UNCHANGED cvars
CSpec == CInit /\ [][CNext]_cvars

----------------------------------------------------------------------------
DeriveC == LET f == Format(rel) IN [R |-> rel, f |-> f, p |-> Parse(f)]
PropsOf(d) == WellFormedOf(d) /\ InverseOf(d) /\ NoWarningOf(d) /\ StableOf(d)

EmitC(d) == Emit => PrintT(<<"CASE", ToJson([r |-> EncRel(d.R), t |-> EncToks(d.f), c |-> ctx,
                                             lv |-> lvl, n |-> cnt, pos |-> fpos])>>)
CountProps == LET d == DeriveC IN PropsOf(d) /\ EmitC(d)

\* negative control: under a bounded splitter the invariants hold exactly up to SplitLimit + 1 items
LimitBites == SplitLimit > 0 /\ lvl \in LimitedSplits => (PropsOf(DeriveC) <=> cnt <= SplitLimit + 1)
=============================================================================
