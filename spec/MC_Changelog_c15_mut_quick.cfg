\* C15 quick: every text of <= 5 lines obtained from a well-formed text (<= 2 blocks, <= 2 body lines,
\* <= 1 leading / separating blank line) by ONE mutation: insert a line of any of the 24 classes,
\* delete or duplicate a line; every prefix of such a text; both allow_empty_author settings
CONSTANTS
  Mode = "text"
  Classes <- AllClasses
  AEAs = {TRUE, FALSE}
  MaxLines = 5
  MaxBlocks = 2
  MaxBody = 2
  MaxLead = 1
  MaxSep = 1
  Budget = 1
  MaxEdits = 0
  Bug = "none"
  Emit = TRUE
SPECIFICATION Spec
INVARIANT BookkeepingOK
INVARIANT StrictIffWarn
INVARIANT SlurpOnlyFromHeading
INVARIANT TrailingHasTarget
INVARIANT NoWarning
INVARIANT RoundTrip
INVARIANT BlocksAsWritten
INVARIANT NormalForm
INVARIANT FormsAgree
INVARIANT CleanRoundTrip
INVARIANT EmitText
CHECK_DEADLOCK FALSE
