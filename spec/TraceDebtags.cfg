CONSTANTS
  PK = {}
  FT = {}
  Colon = 58
  ReadDrops = {}
  ReReadKeys = {}
  InsertNewTagStoresChars = FALSE
  NonAtomicRead = FALSE
  NonAtomicQread = FALSE
  ReverseViewCached = FALSE
  AliasBoundToFirstObject = FALSE
  ShallowCopy = FALSE
  ViewReplacesEmptyIndex = FALSE
  WatchParts = FALSE
  SrcSteps = 0
  Emit = FALSE
SPECIFICATION TSpec
CHECK_DEADLOCK FALSE
