CONSTANTS
  PK = {}
  FT = {}
  Colon = 58
  ReadDrops = {}
  ReReadKeys = {}
  InsertNewTagStoresChars = FALSE
  Emit = FALSE
SPECIFICATION TSpec
CHECK_DEADLOCK FALSE
