CONSTANTS
  NoStrip = FALSE
  SplitLinesSingle = FALSE
SPECIFICATION TSpec
CHECK_DEADLOCK FALSE
