------------------------------- MODULE DebParts -------------------------------
(***************************************************************************)
(* X11 (extra) -- the parts API of debian.debfile: DebPart / DebData /     *)
(* DebControl and the conveniences of DebFile, one level below C07         *)
(* (spec/DebFile.tla decides WHICH packages are accepted and that members  *)
(* come back as packed; this module specifies the per-file API inside the  *)
(* parts).                                                                 *)
(*                                                                         *)
(* A scenario (xenv) is a set of open packages.  A package is              *)
(*    [info, ctl, dat]: the debian-binary text and the two parts;          *)
(* a part is [gate, good, ents]: does the ar member name pass the          *)
(* extension gate of tgz(), does the payload decompress to a tar archive,  *)
(* and the tar members in archive order; a tar member is [n, t, b]: path   *)
(* relative to the root, type file / dir / sym / hard / other, blob id.    *)
(* xenv.blob gives the properties of a blob the API depends on:            *)
(*    k      ascii | utf8 (valid, not ASCII) | bin (not valid UTF-8)       *)
(*    lines  the md5sums lines [n, cls, sp, sep, eol, sum] when the blob   *)
(*           is an md5sums file                                            *)
(*    gz / inner  "one" | "multi" member gzip stream of changelog `inner`  *)
(*    pn     the Package field when the blob is a control file             *)
(*                                                                         *)
(* PATHS are sequences of tokens: "/" , "." (only for the dots a path      *)
(* component STARTS with) and opaque atoms (never empty, never starting    *)
(* with a dot, without slash).  This is exactly what __normalize_member    *)
(* looks at, so names like ".hidden" and "..a" are told apart from the     *)
(* "./" prefix.  The tokenisation is injective: the harness applies it to  *)
(* real strings and token equality is string equality.                     *)
(* A tar member of path n is stored as "./" n (the root as "."), the way   *)
(* dpkg-deb writes it (DESIGN D5); TarFile.getnames() returns that.        *)
(*                                                                         *)
(* One pure operator per public call (PHas, PGet, PScripts, PCtl, PMd5,    *)
(* PChangelog, PVersion, PIter) and PCall = the call in a session          *)
(* (xses): per package the parts whose TarFile has been created (tz, in    *)
(* order of creation), the lazily cached package name (pn), what has been  *)
(* closed (cl), and the file objects handed out by get_file and not yet    *)
(* read (hs).  An outcome is [r, alts, any, mr]: the result, other results *)
(* the statement also allows, any = unspecified (every outcome accepted),  *)
(* mr = the call may also raise (a closed package).                        *)
(*                                                                         *)
(* Switches (all FALSE = the statement):                                   *)
(*   FDirRaises  AS BUILT: get_content / [] of a directory or special      *)
(*               member raises DebError instead of returning None (and     *)
(*               scripts() fails on a non-regular maintainer script)       *)
(*                                         -> NonFileIsNone violated       *)
(*   FUniSpace   AS BUILT: md5sums(encoding=...) splits the line with      *)
(*               str.split, which also strips Unicode white space (U+00A0, *)
(*               U+2003, U+001C ...) a file name starts with; bytes.split  *)
(*               (no encoding) does not      -> Md5ModesAgree violated     *)
(*   FLstrip     "./" and "/" removed with lstrip('./')                    *)
(*                                         -> ContentExact violated        *)
(*   FNativeFirst changelog.gz looked up before changelog.Debian.gz        *)
(*                                         -> ChangelogOrder violated      *)
(*   FKeepCR     only "\n" stripped from md5sums lines -> Md5Exact violated*)
(*   FSharedName package name cached once for all DebFile objects          *)
(*                                         -> CacheTransparent violated    *)
(*   FSharedTar  one TarFile slot per package (the first part opened       *)
(*               answers for both)         -> CacheTransparent violated    *)
(*   FHandleLast reading a file object returns the file opened last        *)
(*                                         -> HandlesIndependent violated  *)
(* The first two are findings on the pinned tree (KNOWN in x11.py): every  *)
(* EDGE line carries the statement's outcome (out) and the as-built one    *)
(* (kout).                                                                 *)
(***************************************************************************)
EXTENDS Naturals, Sequences, FiniteSets, SequencesExt, TLC, Json

CONSTANTS FDirRaises, FUniSpace,                                   \* as built (findings)
          FLstrip, FNativeFirst, FKeepCR, FSharedName, FSharedTar, FHandleLast,   \* negative controls
          Emit                                                     \* TRUE: one EDGE line per evaluated call

VARIABLES xenv,     \* the scenario (constant along a behaviour)
          xses,     \* the session
          xres,     \* outcome of the last call   (output: not in the VIEW)
          xcall     \* the last call              (output: not in the VIEW)

xvars == <<xenv, xses, xres, xcall>>

Flags(dr, us, ls, nf, kc, sn, stt, hl) ==
    [dirraises |-> dr, unisp |-> us, lstrip |-> ls, natfirst |-> nf, keepcr |-> kc, shname |-> sn, shtar |-> stt, hlast |-> hl]
StmtFlags  == Flags(FALSE, FALSE, FALSE, FALSE, FALSE, FALSE, FALSE, FALSE)
BuiltFlags == Flags(TRUE, TRUE, FALSE, FALSE, FALSE, FALSE, FALSE, FALSE)
CfgFlags   == Flags(FDirRaises, FUniSpace, FLstrip, FNativeFirst, FKeepCR, FSharedName, FSharedTar, FHandleLast)

Dot == "."
Sl  == "/"
Ws  == "w"          \* a run of white space in debian-binary
MaintScripts == <<"preinst", "postinst", "prerm", "postrm", "config">>    \* MAINT_SCRIPTS, in this order
ControlFile  == "control"
Md5File      == "md5sums"

----------------------------------------------------------------------------
\* results and outcomes
R(t, x) == [t |-> t, x |-> x]
ROk     == R("ok", "")
RNone   == R("none", "")
Err(k)  == R("err", k)
Bool(v) == R("bool", IF v THEN "true" ELSE "false")

Out(r, alts, any, mr) == [r |-> r, alts |-> alts, any |-> any, mr |-> mr]
Exact(r)   == Out(r, <<>>, FALSE, FALSE)
Unspec     == Out(R("unspec", ""), <<>>, TRUE, FALSE)
\* a file that is not in the part: tarfile's KeyError today; the package-format error is as good
Absent     == Out(Err("KeyError"), <<Err("DebError")>>, FALSE, FALSE)
Broken     == Exact(Err("DebError"))
\* equality of results / outcomes: the tag first (TLC refuses to compare payloads of different shape)
REq(r1, r2) == r1.t = r2.t /\ r1.x = r2.x
OEq(o1, o2) == /\ REq(o1.r, o2.r) /\ o1.any = o2.any /\ o1.mr = o2.mr
               /\ Len(o1.alts) = Len(o2.alts) /\ \A i \in 1..Len(o1.alts) : REq(o1.alts[i], o2.alts[i])
\* may this result be observed?
Allowed(o, r) == \/ o.any
                 \/ REq(r, o.r)
                 \/ \E i \in 1..Len(o.alts) : REq(o.alts[i], r)
                 \/ (o.mr /\ r.t = "err")

BinMode == [codec |-> "", errs |-> ""]
NoPath  == <<>>

----------------------------------------------------------------------------
\* names: __normalize_member at token level
PStartsDotSl(q) == Len(q) >= 2 /\ q[1] = Dot /\ q[2] = Sl
PDropLead(q)    == LET keep == {i \in 1..Len(q) : q[i] \notin {Dot, Sl}} IN
                   IF keep = {} THEN <<>>
                   ELSE SubSeq(q, CHOOSE i \in keep : \A j \in keep : i <= j, Len(q))
PNorm(q, fl)    == IF fl.lstrip THEN PDropLead(q)
                   ELSE IF PStartsDotSl(q) THEN SubSeq(q, 3, Len(q))
                   ELSE IF Len(q) >= 1 /\ q[1] = Sl THEN Tail(q)
                   ELSE q
PKey(q, fl)     == <<Dot, Sl>> \o PNorm(q, fl)          \* './' + fname
PStored(e)      == IF e.n = <<>> THEN <<Dot>> ELSE <<Dot, Sl>> \o e.n

\* a path relative to the root of the archive: no empty, "." or ".." component
PCompStart(q, i) == i = 1 \/ q[i - 1] = Sl
PCompEnd(q, i)   == i = Len(q) \/ q[i + 1] = Sl
PValidName(q) == /\ Len(q) >= 1 /\ q[1] # Sl /\ q[Len(q)] # Sl
                 /\ \A i \in 1..(Len(q) - 1) : ~(q[i] = Sl /\ q[i + 1] = Sl)
                 /\ \A i \in 1..Len(q) : (q[i] = Dot /\ PCompStart(q, i)) =>
                        /\ ~PCompEnd(q, i)
                        /\ ~(i + 1 <= Len(q) /\ q[i + 1] = Dot /\ PCompEnd(q, i + 1))
\* the documented spellings "file", "./file", "/file" of such a path
PInDomain(q)  == PValidName(PNorm(q, StmtFlags))
PSpell(sp, n) == CASE sp = "plain" -> n
                   [] sp = "dot"   -> <<Dot, Sl>> \o n
                   [] sp = "slash" -> <<Sl>> \o n
Spellings == {"plain", "dot", "slash"}

\* index of the (last) member stored under this key, 0 = none
PFind(E, key) == LET hits == {i \in 1..Len(E) : PStored(E[i]) = key} IN
                 IF hits = {} THEN 0 ELSE CHOOSE i \in hits : \A j \in hits : j <= i

----------------------------------------------------------------------------
\* text mode: the content decoded with (codec, errs); errs "" = the default = strict
IsStrict(m)      == m.errs \in {"", "strict"}
Undecodable(k, m) == /\ m.codec # "" /\ IsStrict(m)
                     /\ \/ (m.codec = "utf-8" /\ k = "bin")
                        \/ (m.codec = "ascii" /\ k \in {"utf8", "bin"})
NormErrs(m)      == IF IsStrict(m) THEN "strict" ELSE m.errs
PDec(e, b, m)    == IF m.codec = "" THEN R("bytes", b)
                    ELSE IF Undecodable(e.blob[b].k, m) THEN Err("UnicodeDecodeError")
                    ELSE R("text", <<b, m.codec, NormErrs(m)>>)

----------------------------------------------------------------------------
\* queries on the members E of one (usable) part
PHas(E, q, fl) == IF ~PInDomain(q) THEN Unspec ELSE Exact(Bool(PFind(E, PKey(q, fl)) # 0))

\* kind "getc": get_content / part[...]   "getf": get_file(...) and reading it
PGet(e, E, q, m, kind, fl) ==
    IF ~PInDomain(q) THEN Unspec
    ELSE LET i == PFind(E, PKey(q, fl)) IN
         IF i = 0 THEN Absent
         ELSE IF E[i].t = "file" THEN Exact(PDec(e, E[i].b, m))
         ELSE IF E[i].t \in {"dir", "other"}
              THEN IF kind = "getc"
                   THEN (IF fl.dirraises THEN Broken ELSE Exact(RNone))      \* "or None (e.g. for directories)"
                   ELSE Out(Err("DebError"), <<RNone>>, FALSE, FALSE)        \* no file object for it
         ELSE Unspec                                                         \* links: tarfile's business

PIter(E) == Exact(R("names", [i \in 1..Len(E) |-> PStored(E[i])]))

\* DebControl.scripts(): for each of MAINT_SCRIPTS, has_file then get_content, None skipped
PScripts(e, E, fl) ==
    LET idx  == [i \in 1..Len(MaintScripts) |-> PFind(E, PKey(<<MaintScripts[i]>>, fl))]
        outs == [i \in 1..Len(MaintScripts) |-> PGet(e, E, <<MaintScripts[i]>>, BinMode, "getc", fl)]
        here == {i \in 1..Len(MaintScripts) : idx[i] # 0}
        errs == {i \in here : outs[i].r.t = "err"}
    IN IF \E i \in here : outs[i].any THEN Unspec
       ELSE IF errs # {} THEN Exact(outs[CHOOSE i \in errs : \A j \in errs : i <= j].r)
       ELSE Exact(R("map", SelectSeq([i \in 1..Len(MaintScripts) |->
                                         [n |-> MaintScripts[i],
                                          b |-> IF i \in here /\ outs[i].r.t = "bytes" THEN outs[i].r.x ELSE ""]],
                                     LAMBDA x : x.b # "")))

\* DebControl.debcontrol(): Deb822(get_content('control')); the parser itself is C02's business
PCtlBlob(E, fl) == LET i == PFind(E, PKey(<<ControlFile>>, fl)) IN
                   IF i = 0 \/ E[i].t # "file" THEN "" ELSE E[i].b
PCtl(E, fl) == IF PCtlBlob(E, fl) = "" THEN Unspec ELSE Exact(R("ctl", PCtlBlob(E, fl)))

\* DebControl.md5sums(encoding, errors)
Md5Cut(ln, m, fl) == fl.unisp /\ m.codec # "" /\ (ln.sp = "all" \/ (ln.sp = "u8" /\ m.codec = "utf-8"))
Md5Key(ln, m, fl) == [n   |-> ln.n,
                      ty  |-> IF m.codec = "" THEN "bytes" ELSE "str",
                      dec |-> IF m.codec = "" THEN <<>> ELSE <<m.codec, NormErrs(m)>>,
                      cut |-> Md5Cut(ln, m, fl),                   \* leading Unicode white space lost
                      cr  |-> fl.keepcr /\ ln.eol = "crlf"]        \* "\r" left at the end of the name
Md5Put(acc, x) == IF \E i \in 1..Len(acc) : acc[i].key = x.key
                  THEN [acc EXCEPT ![CHOOSE i \in 1..Len(acc) : acc[i].key = x.key].sum = x.sum]
                  ELSE Append(acc, x)
PMd5(e, E, m, fl) ==
    LET i == PFind(E, PKey(<<Md5File>>, fl)) IN
    IF i = 0 THEN Broken                                           \* "Fails if the control part does not contain ..."
    ELSE IF E[i].t # "file" THEN Unspec
    ELSE LET L == e.blob[E[i].b].lines IN
         IF \E j \in 1..Len(L) : Undecodable(L[j].cls, m) THEN Exact(Err("UnicodeDecodeError"))
         ELSE Exact(R("md5", FoldLeft(Md5Put, <<>>, [j \in 1..Len(L) |-> [key |-> Md5Key(L[j], m, fl), sum |-> L[j].sum]])))

\* DebFile.version: debian-binary stripped of surrounding white space
PStripSeq(q) == LET keep == {i \in 1..Len(q) : q[i] # Ws} IN
                IF keep = {} THEN <<>>
                ELSE SubSeq(q, CHOOSE i \in keep : \A j \in keep : i <= j, CHOOSE i \in keep : \A j \in keep : j <= i)
PVersion(pk) == Exact(R("ver", PStripSeq(pk.info)))

----------------------------------------------------------------------------
\* sessions
PPartOf(pk, p) == IF p = "c" THEN pk.ctl ELSE pk.dat
PUsable(part)  == part.gate = "ok" /\ part.good
Fresh(e) == [tz  |-> [k \in 1..Len(e.pk) |-> <<>>],
             pn  |-> [k \in 1..Len(e.pk) |-> ""],
             spn |-> "",
             cl  |-> [k \in 1..Len(e.pk) |-> [c |-> FALSE, d |-> FALSE]],
             hs  |-> <<>>]
InSeq(x, q) == \E i \in 1..Len(q) : q[i] = x
\* the members consulted for part p of package k
PEnts(e, ses, k, p, fl) == LET pp == IF fl.shtar /\ Len(ses.tz[k]) > 0 THEN ses.tz[k][1] ELSE p IN
                           PPartOf(e.pk[k], pp).ents
\* tgz() of a usable part creates its TarFile once
Touch(e, ses, k, p) == IF PUsable(PPartOf(e.pk[k], p)) /\ ~InSeq(p, ses.tz[k])
                       THEN [ses EXCEPT !.tz[k] = Append(@, p)] ELSE ses
MayRaise(o, ses, k, p) == IF ses.cl[k][p] THEN [o EXCEPT !.mr = TRUE] ELSE o

\* DebFile.changelog()
PChangelog(e, ses, k, fl) ==
    LET pk == e.pk[k]
        cb == PCtlBlob(pk.ctl.ents, fl)
        pn == IF fl.shname /\ ses.spn # "" THEN ses.spn
              ELSE IF ses.pn[k] # "" THEN ses.pn[k]
              ELSE IF cb = "" THEN "" ELSE e.blob[cb].pn
        kinds == IF fl.natfirst THEN <<"cN", "cD">> ELSE <<"cD", "cN">>
        E  == PEnts(e, ses, k, "d", fl)
        at == [j \in 1..2 |-> PFind(E, PKey(e.doc \o <<Sl, pn, Sl, e.kinds[kinds[j]]>>, fl))]
        j  == IF at[1] # 0 THEN 1 ELSE IF at[2] # 0 THEN 2 ELSE 0
    IN IF ~PUsable(pk.ctl) THEN Broken
       ELSE IF pn = "" THEN Unspec                         \* no Package field: not specified
       ELSE IF ~PUsable(pk.dat) THEN Broken
       ELSE IF j = 0 THEN Exact(RNone)
       ELSE IF E[at[j]].t # "file" THEN Unspec
       ELSE IF e.blob[E[at[j]].b].gz = "no" THEN Unspec     \* not a gzip stream: not specified
       ELSE Exact(R("chlog", e.blob[E[at[j]].b].inner))
\* the package name becomes known with the first changelog() that reaches the control file
PLearnName(e, ses, k, fl) ==
    LET pk == e.pk[k]
        cb == PCtlBlob(pk.ctl.ents, fl) IN
    IF PUsable(pk.ctl) /\ cb # "" /\ e.blob[cb].pn # "" /\ ses.pn[k] = ""
    THEN [ses EXCEPT !.pn[k] = e.blob[cb].pn, !.spn = IF @ = "" THEN e.blob[cb].pn ELSE @]
    ELSE ses

\* a call: every field always present
C(k, p, op, q, m, h) == [k |-> k, p |-> p, op |-> op, q |-> q, m |-> m, h |-> h]
NoCall == C(0, "", "-", NoPath, BinMode, 0)
PartOps  == {"has", "getc", "getf", "iter", "tgz", "gf", "closep"}
CtlOps   == {"scripts", "ctl", "md5"}
Closers  == {"close", "exit", "closep"}

RemoveAt1(q, i) == SubSeq(q, 1, i - 1) \o SubSeq(q, i + 1, Len(q))

PCall(e, ses, fl, c) ==
    LET k  == c.k
        p  == IF c.op \in CtlOps THEN "c" ELSE c.p
        S(o, s2) == [ses |-> s2, o |-> o]
    IN
    CASE c.op \in {"has", "getc", "getf", "iter", "tgz", "gf", "scripts", "ctl", "md5"} ->
           LET part == PPartOf(e.pk[k], p)
               E    == PEnts(e, ses, k, p, fl)
               s1   == Touch(e, ses, k, p)
               o    == IF ~PUsable(part) THEN Broken
                       ELSE CASE c.op = "has"     -> PHas(E, c.q, fl)
                              [] c.op = "getc"    -> PGet(e, E, c.q, c.m, "getc", fl)
                              [] c.op = "getf"    -> PGet(e, E, c.q, c.m, "getf", fl)
                              [] c.op = "iter"    -> PIter(E)
                              [] c.op = "tgz"     -> Exact(R("tar", ""))
                              [] c.op = "scripts" -> PScripts(e, E, fl)
                              [] c.op = "ctl"     -> PCtl(E, fl)
                              [] c.op = "md5"     -> PMd5(e, E, c.m, fl)
                              [] c.op = "gf"      ->      \* (a decoding error shows when the object is read)
                                   LET g == PGet(e, E, c.q, BinMode, "getf", fl) IN
                                   IF g.any \/ g.r.t \in {"err", "none"} THEN g ELSE Exact(R("handle", ""))
               opened == c.op = "gf" /\ o.r.t = "handle"
               s2   == IF opened THEN [s1 EXCEPT !.hs = Append(@, [k |-> k, p |-> p, q |-> c.q, m |-> c.m])] ELSE s1
           IN S(MayRaise(o, ses, k, p), s2)
      [] c.op = "rd" ->
           LET hh == IF fl.hlast THEN ses.hs[Len(ses.hs)] ELSE ses.hs[c.h]
               g  == PGet(e, PEnts(e, ses, hh.k, hh.p, fl), hh.q, hh.m, "getf", fl)
           IN S(MayRaise(g, ses, ses.hs[c.h].k, ses.hs[c.h].p), [ses EXCEPT !.hs = RemoveAt1(@, c.h)])
      [] c.op = "chlog" ->
           LET o  == PChangelog(e, ses, k, fl)
               s1 == PLearnName(e, ses, k, fl)
               s2 == IF PUsable(e.pk[k].ctl) THEN Touch(e, s1, k, "c") ELSE s1
               s3 == IF s1.pn[k] # "" /\ PUsable(e.pk[k].ctl) THEN Touch(e, s2, k, "d") ELSE s2
           IN S(MayRaise(MayRaise(o, ses, k, "c"), ses, k, "d"), s3)
      [] c.op = "ver"    -> S(PVersion(e.pk[k]), ses)
      [] c.op = "enter"  -> S(Exact(R("self", "")), ses)
      [] c.op \in {"close", "exit"} -> S(Exact(ROk), [ses EXCEPT !.cl[k] = [c |-> TRUE, d |-> TRUE]])
      [] c.op = "closep" -> S(Exact(ROk), [ses EXCEPT !.cl[k][p] = TRUE])

----------------------------------------------------------------------------
\* model checking (scenarios: DebPartsMC.tla)
Edge(c, s) == Emit => LET b == PCall(xenv, xses, BuiltFlags, c) IN
                      PrintT(<<"EDGE", ToJson([env |-> xenv.id, from |-> xses, call |-> c, out |-> s.o, to |-> s.ses,
                                               kout |-> b.o])>>)

Do(c) == LET s == PCall(xenv, xses, CfgFlags, c) IN
         /\ Len(s.ses.hs) <= xenv.maxh
         /\ xses' = s.ses /\ xres' = s.o /\ xcall' = c /\ UNCHANGED xenv
         /\ Edge(c, s)

\* table scenarios: every call once, from the fresh session; session scenarios: every history
XNext == /\ (xenv.table => xses = Fresh(xenv))
         /\ \/ \E i \in 1..Len(xenv.calls) : Do(xenv.calls[i])
            \/ \E h \in 1..Len(xses.hs) : Do(C(0, "", "rd", NoPath, BinMode, h))

XView == <<xenv, xses>>

----------------------------------------------------------------------------
\* properties of the design.  The first group speaks about the pure operators on every part of the
\* scenario (state invariants, evaluated on the initial states); the second about histories.
PkIdx    == 1..Len(xenv.pk)
PartIds  == {"c", "d"}
QNames   == {xenv.qnames[i] : i \in 1..Len(xenv.qnames)}
Modes    == {xenv.modes[i] : i \in 1..Len(xenv.modes)}
EntsOf(k, p) == PPartOf(xenv.pk[k], p).ents
FileNamesOf(E) == {E[i].n : i \in 1..Len(E)}

NamesAreValid == \A n \in QNames : PValidName(n)

\* "file", "./file" and "/file" are answered identically
SpellingInvariant ==
    \A k \in PkIdx, p \in PartIds, n \in QNames, sp \in Spellings \ {"plain"} :
        LET E == EntsOf(k, p) IN
        /\ OEq(PHas(E, PSpell(sp, n), CfgFlags), PHas(E, n, CfgFlags))
        /\ \A kind \in {"getc", "getf"} :
              OEq(PGet(xenv, E, PSpell(sp, n), BinMode, kind, CfgFlags), PGet(xenv, E, n, BinMode, kind, CfgFlags))

\* has_file <=> packed; a regular file comes back as the blob that was packed; nothing else is found
ContentExact ==
    \A k \in PkIdx, p \in PartIds, n \in QNames, sp \in Spellings :
        LET E == EntsOf(k, p)
            here == {i \in 1..Len(E) : E[i].n = n} IN
        /\ OEq(PHas(E, PSpell(sp, n), CfgFlags), Exact(Bool(here # {})))
        /\ (here = {}) => OEq(PGet(xenv, E, PSpell(sp, n), BinMode, "getc", CfgFlags), Absent)
        /\ \A i \in here : E[i].t = "file" =>
              OEq(PGet(xenv, E, PSpell(sp, n), BinMode, "getc", CfgFlags), Exact(R("bytes", E[i].b)))

\* iterating the part lists './name' exactly for the names has_file finds
ListingAgrees ==
    \A k \in PkIdx, p \in PartIds, n \in QNames :
        LET E == EntsOf(k, p) IN
        InSeq(<<Dot, Sl>> \o n, PIter(E).r.x) <=> REq(PHas(E, n, CfgFlags).r, Bool(TRUE))

\* get_content of an existing directory / special member is None
NonFileIsNone ==
    \A k \in PkIdx, p \in PartIds : LET E == EntsOf(k, p) IN
        \A i \in 1..Len(E) : (E[i].t \in {"dir", "other"} /\ E[i].n # <<>>) =>
            OEq(PGet(xenv, E, E[i].n, BinMode, "getc", CfgFlags), Exact(RNone))

\* text mode: the same blob, decoded; an error exactly for strict decoding of undecodable content
TextOfBinary ==
    \A k \in PkIdx, p \in PartIds, m \in Modes : LET E == EntsOf(k, p) IN
        \A i \in 1..Len(E) : E[i].t = "file" =>
            LET o == PGet(xenv, E, E[i].n, m, "getc", CfgFlags).r IN
            IF m.codec = "" THEN REq(o, R("bytes", E[i].b))
            ELSE IF Undecodable(xenv.blob[E[i].b].k, m) THEN REq(o, Err("UnicodeDecodeError"))
            ELSE o.t = "text" /\ o.x[1] = E[i].b /\ o.x[2] = m.codec

ScriptsExact ==
    \A k \in PkIdx : LET E == EntsOf(k, "c")
                         o == PScripts(xenv, E, CfgFlags) IN
        (\A i \in 1..Len(E) : E[i].t = "file") =>
            /\ o.r.t = "map"
            /\ \A s \in 1..Len(MaintScripts) :
                  LET n == <<MaintScripts[s]>> IN
                  (\E i \in 1..Len(E) : E[i].n = n) <=> (\E j \in 1..Len(o.r.x) : o.r.x[j].n = MaintScripts[s])
            /\ \A j \in 1..Len(o.r.x) : \E i \in 1..Len(E) : E[i].n = <<o.r.x[j].n>> /\ E[i].b = o.r.x[j].b

\* md5sums(): one key per listed name, in order of first listing, with the sum of its last line,
\* whatever the separator and the line terminator; DebError exactly without the md5sums file
Md5LinesOf(k) == LET E == EntsOf(k, "c")
                     i == PFind(E, <<Dot, Sl, Md5File>>) IN
                 IF i = 0 \/ E[i].t # "file" THEN <<>> ELSE xenv.blob[E[i].b].lines
Md5Exact ==
    \A k \in PkIdx : LET E == EntsOf(k, "c")
                         L == Md5LinesOf(k)
                         o == PMd5(xenv, E, BinMode, CfgFlags) IN
        IF PFind(E, <<Dot, Sl, Md5File>>) = 0 THEN OEq(o, Broken)
        ELSE o.any \/ /\ o.r.t = "md5"
                      /\ \A j \in 1..Len(L) : \E x \in 1..Len(o.r.x) :
                            /\ o.r.x[x].key = [n |-> L[j].n, ty |-> "bytes", dec |-> <<>>, cut |-> FALSE, cr |-> FALSE]
                            /\ \E j2 \in j..Len(L) : L[j2].n = L[j].n /\ L[j2].sum = o.r.x[x].sum
                      /\ \A x \in 1..Len(o.r.x) : \E j \in 1..Len(L) : L[j].n = o.r.x[x].key.n
                      /\ \A x, y \in 1..Len(o.r.x) : o.r.x[x].key = o.r.x[y].key => x = y
\* with an encoding the keys are the same names as text, same order, same sums
Md5ModesAgree ==
    \A k \in PkIdx, m \in Modes : LET E == EntsOf(k, "c")
                                      ob == PMd5(xenv, E, BinMode, CfgFlags)
                                      ot == PMd5(xenv, E, m, CfgFlags) IN
        (m.codec # "" /\ ob.r.t = "md5" /\ ot.r.t = "md5") =>
            /\ Len(ot.r.x) = Len(ob.r.x)
            /\ \A x \in 1..Len(ot.r.x) :
                  /\ ot.r.x[x].sum = ob.r.x[x].sum
                  /\ ot.r.x[x].key = [n |-> ob.r.x[x].key.n, ty |-> "str", dec |-> <<m.codec, NormErrs(m)>>,
                                      cut |-> FALSE, cr |-> FALSE]

\* changelog(): the Debian changelog of THIS package, else its native one, else None
ChangelogOrder ==
    \A k \in PkIdx :
        LET pk == xenv.pk[k]
            cb == PCtlBlob(pk.ctl.ents, StmtFlags)
            o  == PChangelog(xenv, Fresh(xenv), k, CfgFlags)
            E  == pk.dat.ents
            own(kind) == {i \in 1..Len(E) : E[i].n = xenv.doc \o <<Sl, xenv.blob[cb].pn, Sl, xenv.kinds[kind]>>}
        IN (PUsable(pk.ctl) /\ PUsable(pk.dat) /\ cb # "" /\ xenv.blob[cb].pn # "" /\ ~o.any) =>
             IF own("cD") # {} THEN \E i \in own("cD") : REq(o.r, R("chlog", xenv.blob[E[i].b].inner))
             ELSE IF own("cN") # {} THEN \E i \in own("cN") : REq(o.r, R("chlog", xenv.blob[E[i].b].inner))
             ELSE REq(o.r, RNone)

VersionStripped ==
    \A k \in PkIdx : LET v == PVersion(xenv.pk[k]).r.x
                         q == xenv.pk[k].info IN
        /\ (Len(v) > 0 => v[1] # Ws /\ v[Len(v)] # Ws)
        /\ \E i \in 0..Len(q) : SubSeq(q, i + 1, i + Len(v)) = v
        /\ Len(SelectSeq(v, LAMBDA x : x # Ws)) = Len(SelectSeq(q, LAMBDA x : x # Ws))

\* a part that cannot be opened answers every call with DebError
GateClosed ==
    \A k \in PkIdx, p \in PartIds : ~PUsable(PPartOf(xenv.pk[k], p)) =>
        \A i \in 1..Len(xenv.calls) : LET c == xenv.calls[i] IN
            (c.k = k /\ c.op \in (PartOps \cup CtlOps) \ {"closep"} /\ (IF c.op \in CtlOps THEN "c" ELSE c.p) = p) =>
                REq(PCall(xenv, Fresh(xenv), CfgFlags, c).o.r, Err("DebError"))

\* histories: whatever has been asked, cached, handed out or closed before, a call is answered as by
\* a fresh object
CacheTransparent ==
    \A i \in 1..Len(xenv.calls) : LET c == xenv.calls[i] IN
        c.op # "rd" => LET o == PCall(xenv, xses, CfgFlags, c).o
                           f == PCall(xenv, Fresh(xenv), CfgFlags, c).o IN
                       OEq([o EXCEPT !.mr = FALSE], f)
\* a file object answers for the file it was opened on, whenever it is read
HandlesIndependent ==
    [][xcall'.op = "rd" =>
          LET hh == xses.hs[xcall'.h]
              g  == PCall(xenv, Fresh(xenv), StmtFlags, C(hh.k, hh.p, "getf", hh.q, hh.m, 0)).o IN
          REq(xres'.r, g.r)]_xvars
\* closing never fails and may be repeated; only closing closes; only a closed package may raise
CloseSafe   == [][xcall'.op \in Closers => OEq(xres', Exact(ROk))]_xvars
OnlyCloseCloses == [][xcall'.op \notin Closers => xses'.cl = xses.cl]_xvars
RaisesOnlyClosed == [][xres'.mr => \E k \in PkIdx : xses.cl[k].c \/ xses.cl[k].d]_xvars
\* the cached name of a package is its own
NameIsOwn   == \A k \in PkIdx : xses.pn[k] # "" =>
                   xses.pn[k] = xenv.blob[PCtlBlob(xenv.pk[k].ctl.ents, StmtFlags)].pn
=============================================================================
