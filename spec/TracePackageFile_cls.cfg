CONSTANTS
  NoText = ""
  TrimEnd = TRUE
  LenientBlank = FALSE
  FlushOnError = FALSE
  MaxLen = 0
  MaxLines = 0
  BigSel = {}
  Emit = FALSE
SPECIFICATION CSpec
CHECK_DEADLOCK FALSE
