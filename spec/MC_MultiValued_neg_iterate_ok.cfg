\* C12 -- scope of the historical defect: classes whose width does not depend on the records are not affected (must hold)
CONSTANTS
  Tables <- DocTables
  Modes <- ModesNegIterateOk
  IterateAllFields = TRUE
  SplitEverySpace = FALSE
  CacheWidths = FALSE
  SharedEqualRecords = FALSE
  ClassLevelOption = FALSE
  StoreBeforeValidate = FALSE
  ReorderStoresPlainKeys = FALSE
  RefusedUnlinksFirst = FALSE
  Emit = FALSE
  EmitOff = 0
SPECIFICATION Spec
INVARIANT TypeOK
INVARIANT DumpTotal
INVARIANT WidthTable
INVARIANT DumpExplains
INVARIANT RecordsRoundTrip
INVARIANT SubFieldNames
INVARIANT WidthRule
INVARIANT RightAligned
INVARIANT SingleBlanks
PROPERTY LoadIsIdentity
PROPERTY EditIsLocal
PROPERTY OtherIsOther
CHECK_DEADLOCK FALSE
