CONSTANTS
  Names = {1, 2, 3}
  Start <- StartF2
  MaxParas = 3
  EditFields = TRUE
  SetVals = {101, 102, 103}
  SetSpells = {"L"}
  Ops = {"get", "set", "del"}
  Emit = TRUE
SPECIFICATION Spec
INVARIANT NoEmptyPara
INVARIANT ParasSeparated
INVARIANT NoDupStaysUnique
INVARIANT NoBlobDuplication
INVARIANT ReplaceLaws
PROPERTY ErrAtomic
PROPERTY CommentsStay
PROPERTY SepsKept
VIEW DocView
CHECK_DEADLOCK FALSE
