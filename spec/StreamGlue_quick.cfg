CONSTANTS
  MaxStream = 3
  MaxContent = 4
  Emit = TRUE
  Bug = "none"
SPECIFICATION Spec
INVARIANT LenRefines
INVARIANT CombRefines
INVARIANT HandedStable
PROPERTY OutcomeOK
PROPERTY Finished
VIEW View
