----------------------------- MODULE BugsClosed -----------------------------
(***************************************************************************)
(* X14 (extra), part (a) -- ChangeBlock.bugs_closed / lp_bugs_closed of    *)
(* debian.changelog.                                                       *)
(*                                                                         *)
(* STATEMENT.  The change lines of a block, joined by one blank, are read  *)
(* from left to right.  bugs_closed is the list (in text order, with       *)
(* repetitions, as int) of exactly the numbers announced in the Debian     *)
(* closes syntax                                                           *)
(*     closes: WS* ITEM ( , WS* ITEM )*     ITEM = [bug] [#] [WS] DIGIT+   *)
(* (key word and "bug" in any ASCII case, no word boundary needed before   *)
(* the key word, WS = ASCII white space; at most ONE white-space character *)
(* after "bug" / "#"), lp_bugs_closed the numbers announced in the         *)
(* Launchpad syntax                                                        *)
(*     lp: WS+ # DIGIT+ ( , WS* # DIGIT+ )*                                *)
(* An announcement is the leftmost-longest occurrence of the grammar;      *)
(* announcements do not overlap; a list ends where the grammar cannot be   *)
(* continued and the text after it is searched for further announcements.  *)
(* A number is a maximal run of ASCII digits (leading zeros dropped by the *)
(* conversion to int; runs beyond the 4300 digits Python converts are out  *)
(* of the domain).  The two properties are pure functions of the current   *)
(* change lines.  (Text order and repetitions as in the code's only        *)
(* documented example; dpkg itself sorts and removes duplicates.)          *)
(* Unspecified (executed, every outcome accepted): texts in which a        *)
(* character that is white space / a decimal digit / equal to "s" only     *)
(* under Unicode rules (NBSP, U+2028, FULLWIDTH / ARABIC-INDIC digits,     *)
(* U+017F LONG S ...) INFLUENCES the result: the specification is          *)
(* evaluated under both readings of these characters and judges only when  *)
(* both give the same numbers.                                             *)
(*                                                                         *)
(* MODEL.  A text is a sequence of one-character symbols:                  *)
(*   c l o s e : b u g p # ,   the characters the grammar names (any case) *)
(*   0 .. 9                    ASCII digits                                *)
(*   w  n                      ASCII white space / boundary between two    *)
(*                             change lines (joined by one blank)          *)
(*   x                         any other character                        *)
(*   W  D  S                   white space / digit / "s" under Unicode     *)
(*                             rules only (see Unspecified)               *)
(* OPERATIONAL: two character-level automata (CStep, LStep: 14 and 8       *)
(* control states) folded over the text, one action per character class    *)
(* and control state; output = the digit runs read in state N.            *)
(* DECLARATIVE: the grammar as end-position sets (Lit, Opt, WsStar, Dig1)  *)
(* and the leftmost-longest search GMatches.  TLC checks that both agree   *)
(* (AutomatonIsGrammar) on every bounded text.                             *)
(*                                                                         *)
(* Modes                                                                   *)
(*   "lts"  closed product of the two control automata over the whole      *)
(*          alphabet (VIEW = control states); EDGE lines                   *)
(*   "bnd"  every text ANCHOR \o up to MaxTail pieces (anchors: one        *)
(*          shortest word per reachable product state, computed by the     *)
(*          harness from the lts run; pieces: every symbol + key words);   *)
(*          invariants + CASE lines with the expected numbers              *)
(* Bug (spec-level negative controls): "wsstar" (any number of blanks      *)
(* after "#" / "bug"), "lpnows" (lp: without white space), "shortest"      *)
(* (the declarative search takes the shortest occurrence): each must make  *)
(* TLC report AutomatonIsGrammar.                                          *)
(***************************************************************************)
EXTENDS Naturals, Sequences, FiniteSets, SequencesExt, FiniteSetsExt, TLC, Json

CONSTANTS BMode,       \* "lts" | "bnd"
          Anchors,     \* set of texts (bnd)
          Pieces,      \* set of texts appended one at a time (bnd)
          MaxTail,     \* number of pieces after the anchor (bnd)
          BEmit,       \* TRUE: print EDGE / CASE lines
          BBug         \* "none" or a negative control

VARIABLES btext,       \* the text so far (bnd; <<>> in lts)
          bk,          \* pieces appended so far
          qc, ql       \* control states of the two automata (lts) / after btext (bnd)

bvars == <<btext, bk, qc, ql>>

----------------------------------------------------------------------------
\* alphabet
BDigits == {"0", "1", "2", "3", "4", "5", "6", "7", "8", "9"}
BSyms   == {"c", "l", "o", "s", "e", ":", "b", "u", "g", "p", "#", ",", "w", "n", "x", "0", "7"}
BOdd    == {"W", "D", "S"}

\* reading of the odd characters: lenient = as Unicode-aware matching sees them, strict = as other characters
BNorm(ch, lenient) ==
    CASE ch = "n" -> "w"
      [] ch = "W" -> IF lenient THEN "w" ELSE "x"
      [] ch = "D" -> IF lenient THEN "7" ELSE "x"
      [] ch = "S" -> IF lenient THEN "s" ELSE "x"
      [] OTHER    -> ch
BNormText(t, lenient) == [i \in 1..Len(t) |-> BNorm(t[i], lenient)]

BIsDigit(ch) == ch \in BDigits
BIsWs(ch)    == ch = "w"

----------------------------------------------------------------------------
\* OPERATIONAL: the closes automaton.  Control states:
\*   K0..K6  0..6 characters of "closes" seen      S   after "closes:" or "," (white space loop)
\*   B1 B2 B3  inside / after "bug"                H   after "#"      W  after the one optional blank
\*   N   inside a number
CKw == <<"c", "l", "o", "s", "e", "s", ":">>
CKs == <<"K0", "K1", "K2", "K3", "K4", "K5", "K6">>
CStates == {"K0", "K1", "K2", "K3", "K4", "K5", "K6", "S", "B1", "B2", "B3", "H", "W", "N"}
CIdle(ch) == IF ch = "c" THEN "K1" ELSE "K0"       \* a character that does not continue may start the key word
CKIdx(q) == CHOOSE i \in 0..6 : CKs[i + 1] = q

\* -> [q |-> next control state, o |-> "new" (first digit of a number) | "ext" (further digit) | "-"]
CNext(q, ch) ==
    CASE q \in {"K0", "K1", "K2", "K3", "K4", "K5", "K6"} ->
            LET i == CKIdx(q) IN
            IF ch = CKw[i + 1] THEN [q |-> IF i = 6 THEN "S" ELSE CKs[i + 2], o |-> "-"]
            ELSE [q |-> CIdle(ch), o |-> "-"]
      [] q = "S" ->
            IF BIsWs(ch) THEN [q |-> "S", o |-> "-"]
            ELSE IF ch = "b" THEN [q |-> "B1", o |-> "-"]
            ELSE IF ch = "#" THEN [q |-> "H", o |-> "-"]
            ELSE IF BIsDigit(ch) THEN [q |-> "N", o |-> "new"]
            ELSE [q |-> CIdle(ch), o |-> "-"]
      [] q = "B1" -> IF ch = "u" THEN [q |-> "B2", o |-> "-"] ELSE [q |-> CIdle(ch), o |-> "-"]
      [] q = "B2" -> IF ch = "g" THEN [q |-> "B3", o |-> "-"] ELSE [q |-> CIdle(ch), o |-> "-"]
      [] q = "B3" ->
            IF ch = "#" THEN [q |-> "H", o |-> "-"]
            ELSE IF BIsWs(ch) THEN [q |-> "W", o |-> "-"]
            ELSE IF BIsDigit(ch) THEN [q |-> "N", o |-> "new"]
            ELSE [q |-> CIdle(ch), o |-> "-"]
      [] q = "H" ->
            IF BIsWs(ch) THEN [q |-> "W", o |-> "-"]
            ELSE IF BIsDigit(ch) THEN [q |-> "N", o |-> "new"]
            ELSE [q |-> CIdle(ch), o |-> "-"]
      [] q = "W" ->
            IF BIsDigit(ch) THEN [q |-> "N", o |-> "new"]
            ELSE IF BBug = "wsstar" /\ BIsWs(ch) THEN [q |-> "W", o |-> "-"]
            ELSE [q |-> CIdle(ch), o |-> "-"]
      [] q = "N" ->
            IF BIsDigit(ch) THEN [q |-> "N", o |-> "ext"]
            ELSE IF ch = "," THEN [q |-> "S", o |-> "-"]
            ELSE [q |-> CIdle(ch), o |-> "-"]

\* the Launchpad automaton.  L0 L1 L2: 0..2 characters of "lp"; A0 after "lp:" (white space required);
\* A white space seen; LH after "#"; LN inside a number; LC after ","
LStates == {"L0", "L1", "L2", "A0", "A", "LH", "LN", "LC"}
LIdle(ch) == IF ch = "l" THEN "L1" ELSE "L0"
LNext(q, ch) ==
    CASE q = "L0" -> [q |-> LIdle(ch), o |-> "-"]
      [] q = "L1" -> IF ch = "p" THEN [q |-> "L2", o |-> "-"] ELSE [q |-> LIdle(ch), o |-> "-"]
      [] q = "L2" -> IF ch = ":" THEN [q |-> "A0", o |-> "-"] ELSE [q |-> LIdle(ch), o |-> "-"]
      [] q = "A0" -> IF BIsWs(ch) THEN [q |-> "A", o |-> "-"]
                     ELSE IF BBug = "lpnows" /\ ch = "#" THEN [q |-> "LH", o |-> "-"]
                     ELSE [q |-> LIdle(ch), o |-> "-"]
      [] q = "A"  -> IF BIsWs(ch) THEN [q |-> "A", o |-> "-"]
                     ELSE IF ch = "#" THEN [q |-> "LH", o |-> "-"]
                     ELSE [q |-> LIdle(ch), o |-> "-"]
      [] q = "LH" -> IF BIsDigit(ch) THEN [q |-> "LN", o |-> "new"] ELSE [q |-> LIdle(ch), o |-> "-"]
      [] q = "LN" -> IF BIsDigit(ch) THEN [q |-> "LN", o |-> "ext"]
                     ELSE IF ch = "," THEN [q |-> "LC", o |-> "-"]
                     ELSE [q |-> LIdle(ch), o |-> "-"]
      [] q = "LC" -> IF BIsWs(ch) THEN [q |-> "LC", o |-> "-"]
                     ELSE IF ch = "#" THEN [q |-> "LH", o |-> "-"]
                     ELSE [q |-> LIdle(ch), o |-> "-"]

BNextOf(kind, q, ch) == IF kind = "closes" THEN CNext(q, ch) ELSE LNext(q, ch)
BStart(kind) == IF kind = "closes" THEN "K0" ELSE "L0"

\* one step of the scanner: st = [q, nums] ; nums = the numbers read so far (digit sequences)
BStep(kind, st, ch) ==
    LET nx == BNextOf(kind, st.q, ch) IN
    [q    |-> nx.q,
     nums |-> IF nx.o = "new" THEN Append(st.nums, <<ch>>)
              ELSE IF nx.o = "ext" THEN [st.nums EXCEPT ![Len(st.nums)] = Append(@, ch)]
              ELSE st.nums]
BScanState(kind, t) == FoldLeft(LAMBDA st, ch : BStep(kind, st, ch), [q |-> BStart(kind), nums |-> <<>>], t)
\* the numbers the automaton reads in a NORMALISED text
BScanN(kind, t) == BScanState(kind, t).nums
BCtlN(kind, t)  == BScanState(kind, t).q

----------------------------------------------------------------------------
\* DECLARATIVE: the grammar as sets of end positions (positions 0..Len(t); t normalised)
GLit(t, S, w) == {i + Len(w) : i \in {j \in S : j + Len(w) <= Len(t) /\ SubSeq(t, j + 1, j + Len(w)) = w}}
GOpt(t, S, w) == S \cup GLit(t, S, w)
GOptWs(t, S)  == S \cup {i + 1 : i \in {j \in S : j < Len(t) /\ BIsWs(t[j + 1])}}
GWsStar(t, S) == {j \in 0..Len(t) : \E i \in S : i <= j /\ \A k \in (i + 1)..j : BIsWs(t[k])}
GWsPlus(t, S) == {j \in 0..Len(t) : \E i \in S : i < j /\ \A k \in (i + 1)..j : BIsWs(t[k])}
GDig1(t, S)   == {j \in 0..Len(t) : \E i \in S : i < j /\ \A k \in (i + 1)..j : BIsDigit(t[k])}

\* ITEM = [bug] [#] [WS] DIGIT+  (closes);  # DIGIT+ (lp)
GCItem(t, S) == GDig1(t, GOptWs(t, GOpt(t, GOpt(t, S, <<"b", "u", "g">>), <<"#">>)))
GLItem(t, S) == GDig1(t, GLit(t, S, <<"#">>))
GItem(kind, t, S) == IF kind = "closes" THEN GCItem(t, S) ELSE GLItem(t, S)
GKw(kind) == IF kind = "closes" THEN CKw ELSE <<"l", "p", ":">>
GKwAt(kind, t, i) == LET w == GKw(kind) IN i + Len(w) <= Len(t) /\ \A k \in 1..Len(w) : t[i + k] = w[k]
GFirst(kind, t, i) == IF ~GKwAt(kind, t, i) THEN {}
                      ELSE IF kind = "closes" THEN GCItem(t, GWsStar(t, {i + 7}))
                      ELSE GLItem(t, GWsPlus(t, {i + 3}))
GMore(kind, t, S) == GItem(kind, t, GWsStar(t, GLit(t, S, <<",">>)))
RECURSIVE GClose(_, _, _, _)
GClose(kind, t, S, n) == LET S2 == S \cup GMore(kind, t, S) IN IF n = 0 \/ S2 = S THEN S ELSE GClose(kind, t, S2, n - 1)
\* the end positions of the occurrences of the grammar that start right after position i
GEnds(kind, t, i) == GClose(kind, t, GFirst(kind, t, i), Len(t))

\* leftmost-longest, non overlapping: <<i, j>> = the occurrence covers t[i+1 .. j]
RECURSIVE GMatches(_, _, _)
GMatches(kind, t, pos) ==
    LET st == {i \in pos..Len(t) : GKwAt(kind, t, i) /\ GEnds(kind, t, i) # {}} IN
    IF st = {} THEN <<>>
    ELSE LET i == Min(st)
             j == IF BBug = "shortest" THEN Min(GEnds(kind, t, i)) ELSE Max(GEnds(kind, t, i))
         IN <<<<i, j>>>> \o GMatches(kind, t, j)
\* the maximal digit runs inside t[i+1 .. j], in text order
GRuns(t, i, j) ==
    LET starts == {s \in (i + 1)..j : BIsDigit(t[s]) /\ (s = i + 1 \/ ~BIsDigit(t[s - 1]))}
        endof(s) == Max({e \in s..j : \A k \in s..e : BIsDigit(t[k])})
    IN [n \in 1..Cardinality(starts) |->
            LET s == SetToSortSeq(starts, <)[n] IN SubSeq(t, s, endof(s))]
GNumsN(kind, t) == LET ms == GMatches(kind, t, 0) IN
                   FoldLeft(LAMBDA acc, m : acc \o GRuns(t, m[1], m[2]), <<>>, ms)

----------------------------------------------------------------------------
\* the statement on raw texts: the numbers under the strict reading; unspecified when the lenient reading differs
BNums(kind, t)   == BScanN(kind, BNormText(t, FALSE))
BUnspec(kind, t) == BScanN(kind, BNormText(t, TRUE)) # BScanN(kind, BNormText(t, FALSE))
\* int(): leading zeros do not count ("0" stays "0")
RECURSIVE BStripZeros(_)
BStripZeros(d) == IF Len(d) > 1 /\ d[1] = "0" THEN BStripZeros(Tail(d)) ELSE d
BValues(nums) == [i \in 1..Len(nums) |-> BStripZeros(nums[i])]

BStr(t) == FoldLeft(LAMBDA acc, ch : acc \o ch, "", t)
BStrs(ns) == [i \in 1..Len(ns) |-> BStr(ns[i])]

----------------------------------------------------------------------------
\* behaviours
BInit == /\ bk = 0
         /\ IF BMode = "lts" THEN btext = <<>> ELSE btext \in Anchors
         /\ qc = BCtlN("closes", BNormText(btext, FALSE))
         /\ ql = BCtlN("lp", BNormText(btext, FALSE))

\* lts: one EDGE per control state of the product and symbol
BFeed(ch) ==
    /\ BMode = "lts"
    /\ LET c == CNext(qc, BNorm(ch, FALSE))  l == LNext(ql, BNorm(ch, FALSE)) IN
       /\ qc' = c.q /\ ql' = l.q
       /\ (BEmit => PrintT(<<"EDGE", ToJson([from |-> <<qc, ql>>, sym |-> ch, to |-> <<c.q, l.q>>, oc |-> c.o, ol |-> l.o])>>))
    /\ UNCHANGED <<btext, bk>>

BAppend(p) ==
    /\ BMode = "bnd" /\ bk < MaxTail
    /\ btext' = btext \o p /\ bk' = bk + 1
    /\ qc' = BCtlN("closes", BNormText(btext', FALSE))
    /\ ql' = BCtlN("lp", BNormText(btext', FALSE))

BNextAct == (\E ch \in BSyms : BFeed(ch)) \/ (\E p \in Pieces : BAppend(p))
BSpec == BInit /\ [][BNextAct]_bvars
BView == IF BMode = "lts" THEN <<qc, ql>> ELSE <<btext, bk>>

----------------------------------------------------------------------------
\* properties
BTypeOK == qc \in CStates /\ ql \in LStates /\ bk \in 0..MaxTail
\* the operational and the declarative reading agree (both readings of the odd characters)
AutomatonIsGrammar ==
    \A kind \in {"closes", "lp"}, len \in (IF \E i \in 1..Len(btext) : btext[i] \in BOdd THEN BOOLEAN ELSE {FALSE}) :
        LET t == BNormText(btext, len) IN BScanN(kind, t) = GNumsN(kind, t)
\* what is reported are maximal digit runs of the text, from left to right, and nothing is reported twice
NumbersAreRuns ==
    \A kind \in {"closes", "lp"} :
        LET t == BNormText(btext, FALSE)  ns == BScanN(kind, t)  all == GRuns(t, 0, Len(t)) IN
        \E f \in [1..Len(ns) -> 1..Len(all)] :
            /\ \A i \in 1..Len(ns) : all[f[i]] = ns[i]
            /\ \A i, j \in 1..Len(ns) : i < j => f[i] < f[j]
\* every Launchpad number directly follows a "#"; no announcement without its key word
LpNeedsHash ==
    LET t == BNormText(btext, FALSE)  ms == GMatches("lp", t, 0) IN
    \A n \in 1..Len(ms) : \A s \in (ms[n][1] + 1)..ms[n][2] :
        (s > 1 /\ BIsDigit(t[s]) /\ ~BIsDigit(t[s - 1])) => t[s - 1] = "#"
KeywordNeeded ==
    LET t == BNormText(btext, FALSE) IN
    /\ (BScanN("closes", t) # <<>> => \E i \in 0..Len(t) : GLit(t, {i}, CKw) # {})
    /\ (BScanN("lp", t) # <<>> => \E i \in 0..Len(t) : GLit(t, {i}, <<"l", "p", ":">>) # {})
\* the simplest announcements are always found
SimpleFound ==
    LET t == BNormText(btext, FALSE) IN
    \A i \in 0..Len(t) :
        /\ (GLit(t, {i}, CKw \o <<"#", "7">>) # {} => Len(BScanN("closes", t)) >= 1)
        /\ (GLit(t, {i}, <<"l", "p", ":", "w", "#", "7">>) # {} => Len(BScanN("lp", t)) >= 1)
\* reading on only adds numbers or digits to the last number (the scan is a left-to-right stream)
BPrefixOK(a, b) == \/ a = <<>>
                   \/ /\ Len(b) >= Len(a)
                      /\ SubSeq(b, 1, Len(a) - 1) = SubSeq(a, 1, Len(a) - 1)
                      /\ Len(b[Len(a)]) >= Len(a[Len(a)])
                      /\ SubSeq(b[Len(a)], 1, Len(a[Len(a)])) = a[Len(a)]
Streaming == [][BMode = "bnd" => \A kind \in {"closes", "lp"} :
                    BPrefixOK(BNums(kind, btext), BNums(kind, btext'))]_bvars

\* a digit sequence with every run of the digit x collapsed to one x
RECURSIVE BStripRun(_, _)
BStripRun(d, x) == IF Len(d) < 2 THEN d
                   ELSE IF d[1] = x /\ d[2] = x THEN BStripRun(Tail(d), x)
                   ELSE <<d[1]>> \o BStripRun(Tail(d), x)
\* what makes the size stress of the harness length-independent: an "x" brings both automata back to the
\* start; doubling an "x" changes nothing; doubling a digit only makes the number it belongs to one digit longer
BDouble(t, i) == SubSeq(t, 1, i) \o <<t[i]>> \o SubSeq(t, i + 1, Len(t))
StretchOK ==
    \A kind \in {"closes", "lp"} :
        LET t == BNormText(btext, FALSE)  ns == BScanN(kind, t) IN
        /\ BCtlN(kind, t \o <<"x">>) = BStart(kind)
        /\ \A i \in 1..Len(t) :
              /\ (t[i] = "x" => BScanN(kind, BDouble(t, i)) = ns)
              /\ (BIsDigit(t[i]) =>
                     LET ms == BScanN(kind, BDouble(t, i)) IN
                     /\ Len(ms) = Len(ns)
                     /\ \A n \in 1..Len(ns) : ms[n] = ns[n] \/ (Len(ms[n]) = Len(ns[n]) + 1 /\ BStripRun(ms[n], t[i]) = BStripRun(ns[n], t[i])))

BEmitCase == (BEmit /\ BMode = "bnd") =>
    PrintT(<<"CASE", ToJson([t |-> BStr(btext),
                             c |-> BStrs(BNums("closes", btext)), l |-> BStrs(BNums("lp", btext)),
                             uc |-> BUnspec("closes", btext), ul |-> BUnspec("lp", btext)])>>)
=============================================================================
