--------------------------- MODULE Deb822OptsObjs ---------------------------
(***************************************************************************)
(* X16 -- closed model of the calls on LIVE paragraph objects (parts W, M   *)
(* of Deb822Opts.tla): object 1 is edited by the history, the other         *)
(* objects of a scenario are frozen bystanders / right operands.            *)
(* One action per public call, all instances of the pure operator OCall:    *)
(*   get(k[, default])  setdefault(k, default)  pop(k[, default])  k in p   *)
(*   p[k]  get_as_string(k)  p[k] = v  del p[k]  keys  values  items  len   *)
(*   p == x  p != x   (x: a paragraph, a plain dict with the same items,    *)
(*                     None, an int, an empty sequence, list(p))            *)
(*   dump() / dump(fd text) / dump(fd binary[, encoding])  str  bytes       *)
(* Scenarios (Which):                                                       *)
(*   plain  UTF-8 object; values a (ASCII), b (Latin-1), e (empty);         *)
(*          bystanders [1C:a 2C:b], [2C:b 1C:a], [1L:a], []                 *)
(*   multi  Latin-1 object; values a, m (empty first line + a Latin-1       *)
(*          continuation line), u (beyond Latin-1); bystanders [1C:a],      *)
(*          [1C:u] (UTF-8), [1C:a 2C:m]                                     *)
(* Properties: MapsOK, EqIsSetEquality, EqSymmetric, RenderingsAgree,       *)
(* DumpFollowsKeys (invariants); QueriesPure, ErrAtomic, Frame, KeepsPlace, *)
(* ReadBack, NeNegatesEq, NonMappingNeverEqual, ObjEncUsed, GetIsTotal      *)
(* (action properties; res / call are outputs outside the VIEW).            *)
(* Negative controls: FEqRaise -> NonMappingNeverEqual (as built: finding), *)
(* FObjEnc -> ObjEncUsed, FSdMove -> KeepsPlace.                            *)
(* EDGE lines carry the statement's result (res, to, any) and the as-built  *)
(* one (kres, kto); ENV lines the scenario.                                 *)
(***************************************************************************)
EXTENDS Deb822Opts

CONSTANTS Which, MaxLen, FEqRaise, FObjEnc, FSdMove, Emit

VARIABLES env, objs, res, call
ovars == <<env, objs, res, call>>
\* subscript of the action properties: res.x has a different shape per result tag and TLC cannot compare those
osig  == <<env, objs, call, res.t>>

CfgFlags == Flags(FALSE, FALSE, FEqRaise, FALSE, FALSE, FObjEnc, FSdMove)

E(n, s, v)     == [n |-> n, s |-> s, v |-> v]
Ob(cls, enc, m) == [cls |-> cls, enc |-> enc, m |-> m]
Va == <<"a">>
Vb == <<"b">>
Ve == <<Empty>>
Vm == <<Empty, "x">>
Vu == <<"u">>
Bad == <<"a", Empty>>            \* 'a' + newline: refused by an assignment

Scn(id, vals, os, tcl, encs) ==
    [id |-> id, names |-> <<1, 2>>, spells |-> <<"C", "L">>, vals |-> vals, bad |-> Bad, objs |-> os,
     tcl |-> tcl, scl |-> [C |-> "a", L |-> "a"], encs |-> encs, maxlen |-> MaxLen]

AllScenarios == {
    Scn("plain", <<Va, Vb, Ve>>,
        <<Ob("Deb822", "utf-8", <<>>), Ob("Deb822", "utf-8", <<E(1, "C", Va), E(2, "C", Vb)>>),
          Ob("Deb822", "utf-8", <<E(2, "C", Vb), E(1, "C", Va)>>), Ob("Deb822", "utf-8", <<E(1, "L", Va)>>),
          Ob("Deb822", "utf-8", <<>>)>>,
        [a |-> "a", b |-> "l"] @@ (Empty :> "a"), <<"omit", "utf-8", "latin-1", "ascii">>),
    Scn("multi", <<Va, Vm, Vu>>,
        <<Ob("Deb822", "latin-1", <<>>), Ob("Deb822", "latin-1", <<E(1, "C", Va)>>),
          Ob("Deb822", "utf-8", <<E(1, "C", Vu)>>), Ob("Deb822", "latin-1", <<E(1, "C", Va), E(2, "C", Vm)>>)>>,
        [a |-> "a", x |-> "l", u |-> "w"] @@ (Empty :> "a"), <<"omit", "utf-8", "latin-1">>)
}
Scenarios == {c \in AllScenarios : c.id \in Which}
ASSUME Emit => \A c \in Scenarios : PrintT(<<"ENV", ToJson(c)>>)

Ms(os) == [i \in 1..Len(os) |-> os[i].m]

\* the accessor tables, once
ASSUME Emit => PrintT(<<"ACC", ToJson([
    pool |-> [sec \in {"s", "c/s", "c/s/x"} |-> [src \in {"lib+", "lib", "other"} |-> PoolPath(sec, src)]],
    pkg  |-> [srcf \in {"absent", "plain", "ver"} |-> PkgSource(srcf)]])>>)
\* laws of the tables
ASSUME /\ \A src \in {"lib+", "lib", "other"} : PoolPath("s", src).comp = "main" /\ PoolPath("c/s", src).comp = "comp"
       /\ \A sec \in {"s", "c/s"} : PoolPath(sec, "lib+").pre = 4 /\ PoolPath(sec, "other").pre = 1 /\ ~PoolPath(sec, "lib+").any
       /\ PkgSource("absent") = [name |-> "Package", ver |-> "Version"] /\ PkgSource("ver").ver = "SourceVersion"

\* only object 1 ever changes (MapsOK): the EDGE line carries its mapping; "=" = as the statement
SameAs(k, x) == IF k = x THEN "=" ELSE k
Edge(c, o) == Emit => LET k == OCall(env, objs, BuiltFlags, c) IN
    PrintT(<<"EDGE", ToJson([cfg |-> env.id, from |-> objs[1].m, call |-> c, res |-> o.r, to |-> o.os[1].m, any |-> o.any,
                             kres |-> IF REq(k.r, o.r) THEN "=" ELSE k.r, kto |-> SameAs(k.os[1].m, o.os[1].m)])>>)

Do(c) == LET o == OCall(env, objs, CfgFlags, c) IN
         /\ Len(o.os[1].m) <= env.maxlen
         /\ objs' = o.os /\ res' = o.r /\ call' = c /\ UNCHANGED env
         /\ Edge(c, o)

Names  == ToSet(env.names)
Spells == ToSet(env.spells)
Vals   == ToSet(env.vals)
Objs   == 1..Len(env.objs)

ONext ==
    \/ \E n \in Names, s \in Spells :
          \/ \E d \in {"omit", "given"} : Do(C("get", 1, n, s, <<>>, d, 0, "", "")) \/ Do(C("pop", 1, n, s, <<>>, d, 0, "", ""))
          \/ Do(C("gas", 1, n, s, <<>>, "", 0, "", "")) \/ Do(C("getitem", 1, n, s, <<>>, "", 0, "", ""))
          \/ Do(C("has", 1, n, s, <<>>, "", 0, "", "")) \/ Do(C("del", 1, n, s, <<>>, "", 0, "", ""))
          \/ \E v \in Vals \cup {env.bad} : Do(C("setdefault", 1, n, s, v, "given", 0, "", "")) \/ Do(C("set", 1, n, s, v, "", 0, "", ""))
    \/ \E o \in Objs :
          \/ \E op \in {"keys", "values", "items", "len", "str", "bytes"} : Do(C(op, o, 0, "", <<>>, "", 0, "", ""))
          \/ Do(C("dump", o, 0, "", <<>>, "", 0, "ret", "omit")) \/ Do(C("dump", o, 0, "", <<>>, "", 0, "fdt", "omit"))
          \/ \E enc \in ToSet(env.encs) : Do(C("dump", o, 0, "", <<>>, "", 0, "fdb", enc))
          \/ \E n \in Names : Do(C("get", o, n, "C", <<>>, "given", 0, "", ""))
    \/ \E op \in {"eq", "ne"} :
          \/ \E o2 \in Objs, k \in {"obj", "dict"} : Do(C(op, 1, 0, "", <<>>, "", o2, k, "")) \/ Do(C(op, o2, 0, "", <<>>, "", 1, k, ""))
          \/ \E k \in {"none", "int", "emptyseq", "keyseq"} : Do(C(op, 1, 0, "", <<>>, "", 0, k, ""))

OInit == /\ env \in Scenarios
         /\ objs = env.objs
         /\ res = ROk
         /\ call = NoCall
OSpec == OInit /\ [][ONext]_ovars
OView == <<env, objs>>

----------------------------------------------------------------------------
MapsOK == \A i \in Objs : /\ MUnique(objs[i].m)
                          /\ \A j \in 1..Len(objs[i].m) : Valid(objs[i].m[j].v)
                          /\ (i > 1 => objs[i] = env.objs[i])           \* bystanders never change

\* == is equality of the SETS of (name, value) pairs (where no common name is spelled differently)
Pairs(m) == {<<m[i].n, m[i].v>> : i \in 1..Len(m)}
EqIsSetEquality == \A i, j \in Objs :
    LET x == EqOutcome(objs[i].m, objs[j].m, "obj", CfgFlags) IN
    x # "any" => ((x = "true") <=> (Pairs(objs[i].m) = Pairs(objs[j].m)))
EqSymmetric == \A i, j \in Objs : EqOutcome(objs[i].m, objs[j].m, "obj", CfgFlags) = EqOutcome(objs[j].m, objs[i].m, "dict", CfgFlags)

Q(op, o, k, enc) == OCall(env, objs, CfgFlags, C(op, o, 0, "", <<>>, "", 0, k, enc)).r
RenderingsAgree == \A o \in Objs :
    LET t == Q("dump", o, "ret", "omit").x IN
    /\ Q("str", o, "", "").x = t
    /\ Q("dump", o, "fdt", "omit").x.t = t
    /\ \A enc \in ToSet(env.encs) : LET r == Q("dump", o, "fdb", enc) IN r.t = "wrote" => r.x.t = t
    /\ LET r == Q("bytes", o, "", "") IN r.t = "bytes" => (r.x.t = t /\ r.x.enc = objs[o].enc)
DumpFollowsKeys == \A o \in Objs :
    LET t == Q("dump", o, "ret", "omit").x IN
    /\ [i \in 1..Len(t) |-> t[i].s] = Q("keys", o, "", "").x
    /\ [i \in 1..Len(t) |-> t[i].v] = Q("values", o, "", "").x

Others(m, n) == SelectSeq(m, LAMBDA x : x.n # n)
QueriesPure == [][call'.op \in Queries => objs' = objs]_osig
ErrAtomic   == [][res'.t = "err" => objs' = objs]_osig
Frame       == [][/\ \A q \in Objs : q # call'.o => objs'[q] = objs[q]
                  /\ Others(objs'[call'.o].m, call'.n) = Others(objs[call'.o].m, call'.n)]_osig
KeepsPlace  == [][LET m == objs[call'.o].m  m2 == objs'[call'.o].m  n == call'.n IN
                  (call'.op \in {"set", "setdefault"} /\ MHas(m, n) /\ MHas(m2, n)) =>
                      /\ MIdx(m2, n) = MIdx(m, n) /\ MGet(m2, n).s = MGet(m, n).s]_osig
\* what setdefault / set report is what a later lookup finds; an absent key is appended with the caller's spelling
ReadBack    == [][(call'.op \in {"set", "setdefault"} /\ res'.t # "err") =>
                  LET m == objs[call'.o].m  m2 == objs'[call'.o].m  n == call'.n IN
                  /\ MHas(m2, n)
                  /\ (call'.op = "setdefault" => res' = R("val", MGet(m2, n).v))
                  /\ (call'.op = "setdefault" /\ MHas(m, n) => m2 = m)
                  /\ (~MHas(m, n) => m2 = Append(m, [n |-> n, s |-> call'.s, v |-> call'.v]))]_osig
NeNegatesEq == [][call'.op = "ne" =>
                  LET r == OCall(env, objs, CfgFlags, [call' EXCEPT !.op = "eq"]).r IN
                  IF res'.t = "bool" THEN r.t = "bool" /\ r.x # res'.x ELSE REq(r, res')]_osig
NonMappingNeverEqual == [][(call'.op \in {"eq", "ne"} /\ call'.k \notin {"obj", "dict"}) =>
                           REq(res', RBool(call'.op = "ne"))]_osig
ObjEncUsed  == [][(call'.op = "dump" /\ call'.k = "fdb" /\ call'.enc = "omit" /\ res'.t = "wrote") =>
                  res'.x.enc = objs[call'.o].enc]_osig
\* get never raises and never changes anything; pop / getitem raise KeyError exactly when `in` says false
GetIsTotal  == [][/\ call'.op = "get" => res'.t \in {"val", "none", "dflt"}
                  /\ call'.op \in {"gas", "getitem"} => ((res'.t = "err") <=> ~MHas(objs[call'.o].m, call'.n))]_osig
=============================================================================
