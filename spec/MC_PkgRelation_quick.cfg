\* C13 closed configuration (quick): every atom shape (3612) as the focus atom at every position
\* of every list shape (1..2 conjuncts x 1..2 alternatives, at most 2 atoms), context atoms are bare names (the thorough configuration also has context atoms with every part)
CONSTANTS
  MaxConj = 2
  MaxAlt = 2
  MaxAtoms = 2
  MaxArch = 2
  MaxGroups = 2
  MaxTerms = 2
  OpIds = {1, 2, 3, 4, 5}
  CtxKinds = {"bare"}
  Emit = TRUE
  RestrictionsFirst = FALSE
  IgnoreNegation = FALSE
  PipeFirst = FALSE
  FormatInKeyOrder = FALSE
  SplitLimit = 0
  LimitedSplits = {}
  KeyOrders <- OneKeyOrder
SPECIFICATION Spec
INVARIANT AllProps
CHECK_DEADLOCK FALSE
