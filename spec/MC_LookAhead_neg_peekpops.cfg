CONSTANTS
  NC = 8
  Chunk = 5
  Classes = {0, 1}
  Scripts <- MCScripts
  ShortLen = 1
  LongLens = {6}
  LongErr = FALSE
  ArgK = {0, 1, 2}
  Lims <- LimsSmall
  Preds <- PredsTwo
  MaxGens = 1
  Latch = TRUE
  UseClosed = FALSE
  Bug = "peekpops"
  Emit = FALSE
SPECIFICATION Spec
INVARIANT Refines
VIEW View
