---------------------------- MODULE ReproAccept ----------------------------
(***************************************************************************)
(* X09 (extra) -- WHICH inputs debian._deb822_repro.parse_deb822_file       *)
(* accepts, and what it reports about the others                           *)
(* (lib/debian/_deb822_repro/parsing.py: parse_deb822_file,                *)
(* Deb822FileElement.find_first_error_element / is_valid_file / iter_*,    *)
(* Deb822ErrorElement, the two paragraph classes; tokens.py:               *)
(* tokenize_deb822_file, _RE_FIELD_LINE, Deb822ErrorToken).  The lossless  *)
(* round trip of the accepting mode is C01 and is not repeated here.       *)
(*                                                                         *)
(* STATEMENT.  Read a file as a sequence of lines.  A line is BLANK (only  *)
(* blanks / tabs, possibly CR before the newline), a COMMENT (first        *)
(* character '#'), a FIELD line `name:...` (name = one or more US-ASCII    *)
(* characters '!'..'~' without ':', not starting with '#' or '-', ending   *)
(* at the FIRST colon), a CONTINUATION line (first character blank or tab, *)
(* not blank as a whole) or JUNK (anything else: no colon, empty name,     *)
(* name with blank / tab / control / non-ASCII character, name starting    *)
(* with '-').  A continuation line is in place when a field line precedes  *)
(* it with no blank line in between (comment and continuation lines may    *)
(* stand in between).  The ERROR lines of a file are its junk lines and    *)
(* its continuation lines that are not in place.  Paragraphs are the       *)
(* maximal groups of field lines not separated by a blank line; a          *)
(* paragraph has a DUPLICATE when two of its field names are equal up to   *)
(* ASCII case.  Then, for every file and every combination of the flags:   *)
(*  (E) accept_files_with_error_tokens = False: the call raises ValueError *)
(*      exactly when the file has an error line, and the message quotes    *)
(*      the first error line; True: it never raises for that reason, and   *)
(*      find_first_error_element() is None iff there is no error line,     *)
(*      else an element whose text begins exactly at the first error line  *)
(*      and consists of whole consecutive error lines; the same element is *)
(*      the first one iter_recurse / iter_parts_of_type report and its     *)
(*      first token is the first Deb822ErrorToken of iter_tokens(), whose  *)
(*      text is that line.                                                 *)
(*  (D) accept_files_with_duplicated_fields = False: the call raises       *)
(*      ValueError exactly when some paragraph has a duplicate (message:   *)
(*      that field name and that paragraph); True: it never raises for     *)
(*      that reason; a returned paragraph is a                             *)
(*      Deb822DuplicateFieldsParagraphElement with has_duplicate_fields    *)
(*      exactly when it has a duplicate, and the paragraphs list exactly   *)
(*      the field names of the file, in order, original spelling.          *)
(*  (V) is_valid_file is true exactly when there is no error line, at      *)
(*      least one paragraph and no duplicate.                              *)
(*  (I) The flags are independent (the strict call raises iff one of the   *)
(*      two single-flag calls does; nothing raises with both flags on),    *)
(*      every ValueError is raised by the call itself, and the outcome     *)
(*      depends only on the text and the flags: not on str / bytes lines,  *)
(*      lines with or without newline characters, lists / iterators / file *)
(*      objects, the lengths of names, values and lines, the number of     *)
(*      lines, fields and paragraphs, earlier calls, or results of earlier *)
(*      calls that are still alive or were modified by the caller.         *)
(*                                                                         *)
(* UNSPECIFIED (executed, any outcome accepted).  (u1) In a file that HAS  *)
(* an error line everything after the first error line is reported only    *)
(* as far as two readings agree: the code keeps a field "open" across a    *)
(* junk line (a continuation line after it is not an error token; mode     *)
(* "strict": the junk line closes it) and lets an error line end the       *)
(* paragraph (mode "glue": only blank lines do).  Extent of the first      *)
(* error element and number of error tokens are judged when "code" and     *)
(* "strict" agree, paragraphs / duplicates when "code" and "glue" agree;   *)
(* the FIRST error line is the same in all readings (IFirstErr).  (u2)     *)
(* Which of the two ValueErrors is raised when both flags are off and the  *)
(* file has both defects.  (u3) Lines whose class the documents do not     *)
(* settle: name starting with '.' (Policy allows it, _RE_FIELD_LINE does   *)
(* not), DEL in a name (the reverse), CR elsewhere than before the         *)
(* newline, white space other than blank / tab / final CR at the margin of *)
(* a line or making up a whole line (the tokenizer's \s is Unicode white   *)
(* space), str.splitlines() boundary characters.  (u4) Inconsistent line   *)
(* endings, a single empty string, undecodable bytes.                      *)
(*                                                                         *)
(* MODEL.  Two levels, like the code.                                      *)
(* (1) Character level.  A line body (without its newline) is a sequence   *)
(*     of RUNS [c, n]: n characters of class S blank/tab, R CR, H '#',     *)
(*     C ':', D '-', P '.', N other '!'..'~', X anything else that is not  *)
(*     white space (non-ASCII, control characters).  Classify(rs) follows  *)
(*     the tests of tokenize_deb822_file in their order; it never looks at *)
(*     a run length except to add them up (nlen), so it is independent of  *)
(*     every length.  ESpec enumerates every line of <= MaxLen characters  *)
(*     (a CR only as the last one):                                        *)
(*     EShape (declarative reading, character by character), ERunAgrees   *)
(*     (merging runs changes nothing), EStable (text after the first colon *)
(*     of a field line / after the first character of a comment or         *)
(*     continuation line is irrelevant).                                   *)
(* (2) Line level.  Lines [c, n, v]: class B C K F J, name id n, spelling  *)
(*     v (same n, other v = same name up to case).  The reader automaton   *)
(*     has one branch per branch of the tokenizer loop (Blank Comment      *)
(*     ContOpen ContOrphan Field Junk; G / Apply / BranchOf) and keeps the *)
(*     bookkeeping of the element combiners (current paragraph, closed     *)
(*     paragraphs, first error element, error tokens).  Result / Acc give  *)
(*     what the public API shows for each of the four flag combinations.   *)
(*     LSpec enumerates EVERY file of <= MaxLines lines over B C K J F1a   *)
(*     F1b F2a: ITotality, IRunAgrees, IFirstErr (the automaton's first    *)
(*     error = the declarative one, in all three readings), IErrFree (a    *)
(*     file without error line has one reading), IParas / IDup / IValid    *)
(*     (declarative paragraphs, duplicates, validity), IFlags              *)
(*     (independence), IPrefix (action property: the first error and the   *)
(*     closed paragraphs are decided by the prefix), IStutter (a blank,    *)
(*     comment or in-place continuation line may be repeated: only line    *)
(*     numbers move -- the size-stress expansion of the harness).          *)
(*     BigSpec: large                                                      *)
(*     uniform files (1000 paragraphs, 257 fields, 1000 continuation       *)
(*     lines, a duplicate 257 fields apart, an error beyond line 65536).   *)
(* Negative controls tried (TLC reports the named invariant):              *)
(*   DashFirstOK = TRUE         -> EShape     ('-' accepted as first char) *)
(*   CommentClosesField = TRUE  -> IFirstErr  (a comment ends the value)   *)
(*   DupAcrossBlank = TRUE      -> IParas     (blank line does not end the *)
(*                                             paragraph)                  *)
(*   CaseSensitiveDup = TRUE    -> IDup       (Foo / FOO not a duplicate)  *)
(* Call histories: ReproAcceptCalls.tla.  Recorded executions:             *)
(* TraceReproAccept.tla.                                                   *)
(***************************************************************************)
EXTENDS Integers, Sequences, FiniteSets, TLC, Json

CONSTANTS MaxLen,              \* ESpec: characters per enumerated line
          MaxLines,            \* LSpec: lines per enumerated file
          BigSel,              \* BigSpec: indexes into BigTable
          Emit,
          DashFirstOK,         \* design: FALSE
          CommentClosesField,  \* design: FALSE
          DupAcrossBlank,      \* design: FALSE
          CaseSensitiveDup     \* design: FALSE

VARIABLES yln,    \* ESpec: the line (sequence of runs) under construction
          yst,    \* LSpec: automaton state
          ydoc    \* LSpec: the file read so far

vars == <<yln, yst, ydoc>>

RaMin(S) == CHOOSE x \in S : \A y \in S : x <= y
RaMax(S) == CHOOSE x \in S : \A y \in S : x >= y

----------------------------------------------------------------------------
(* (1) character level *)
CharClasses == {"S", "R", "H", "C", "D", "P", "N", "X"}
WsCls       == {"S", "R"}
NameFirst   == IF DashFirstOK THEN {"N", "D"} ELSE {"N"}
NameRest    == {"N", "D", "P", "H"}
Rn(c, n)    == [c |-> c, n |-> n]

RECURSIVE OffR(_, _)
OffR(rs, i) == IF i <= 1 THEN 0 ELSE OffR(rs, i - 1) + rs[i - 1].n     \* characters before run i
Tot(rs)     == OffR(rs, Len(rs) + 1)

CRes(c, nlen) == [c |-> c, nlen |-> nlen]

\* the tests of tokenize_deb822_file, in their order
Classify(rs) ==
  LET n    == Len(rs)
      nonW == {i \in 1..n : rs[i].c \notin WsCls}
      badR == \E i \in 1..n : rs[i].c = "R" /\ (i < n \/ rs[i].n > 1)
      m    == RaMax({j \in 0..n : \A i \in 1..j : rs[i].c \in NameRest})    \* runs a name could be made of
  IN IF badR THEN CRes("Unspec", 0)
     ELSE IF nonW = {} THEN CRes("Blank", 0)                         \* _RE_WHITESPACE_LINE (also the empty body)
     ELSE IF rs[1].c = "H" THEN CRes("Comment", 0)                   \* line[0] == '#'
     ELSE IF rs[1].c = "S" THEN CRes("Cont", 0)                      \* line[0] in (' ', '\t')
     ELSE IF m >= 1 /\ m < n /\ rs[m + 1].c = "C"                    \* _RE_FIELD_LINE
          THEN (IF rs[1].c \in NameFirst THEN CRes("Field", OffR(rs, m + 1))
                ELSE IF rs[1].c = "P" THEN CRes("Unspec", 0)         \* ".name:" (u3)
                ELSE CRes("Junk", 0))
          ELSE CRes("Junk", 0)

\* ---- declarative reading, character by character (ESpec only: short lines)
RECURSIVE Expand(_)
Expand(rs) == IF rs = <<>> THEN <<>> ELSE [i \in 1..Head(rs).n |-> Head(rs).c] \o Expand(Tail(rs))
HasNameAt(E, k) == /\ k >= 1 /\ k < Len(E)
                   /\ \A o \in 1..k : E[o] \in NameRest
                   /\ E[k + 1] = "C"
ShapeOK(rs) ==
  LET r == Classify(rs)
      E == Expand(rs)
      T == Len(E)
      allW  == \A o \in 1..T : E[o] \in WsCls
      crOK  == \A o \in 1..T : E[o] = "R" => o = T
  IN /\ T = Tot(rs)
     /\ CASE r.c = "Blank"   -> allW /\ crOK
          [] r.c = "Comment" -> crOK /\ T >= 1 /\ E[1] = "H"
          [] r.c = "Cont"    -> crOK /\ T >= 2 /\ E[1] = "S" /\ ~allW
          [] r.c = "Field"   -> /\ crOK /\ HasNameAt(E, r.nlen) /\ E[1] = "N"
                                /\ \A k \in 1..(r.nlen - 1) : E[k + 1] # "C"       \* the FIRST colon
          [] r.c = "Junk"    -> /\ crOK /\ ~allW /\ E[1] \notin {"H", "S"}
                                /\ \/ ~\E k \in 1..(T - 1) : HasNameAt(E, k)       \* no `name:` at the margin
                                   \/ E[1] = "D"                                  \* a name may not start with '-'
          [] r.c = "Unspec"  -> ~crOK \/ (E[1] = "P" /\ \E k \in 1..(T - 1) : HasNameAt(E, k))

RECURSIVE MergeRuns(_)
MergeRuns(rs) == IF Len(rs) <= 1 THEN rs
                 ELSE LET m == MergeRuns(Tail(rs)) IN
                      IF Head(rs).c = Head(m).c THEN <<Rn(Head(rs).c, Head(rs).n + Head(m).n)>> \o Tail(m)
                      ELSE <<Head(rs)>> \o m

----------------------------------------------------------------------------
(* (2) line level: the tokenizer loop and the bookkeeping of the combiners *)
LineClasses == {"B", "C", "K", "F", "J"}
Ln(c, n, v) == [c |-> c, n |-> n, v |-> v]
Key(ln)     == IF CaseSensitiveDup THEN <<ln.n, ln.v>> ELSE <<ln.n>>
Modes       == {"code", "strict", "glue"}

\* open  = current_field_name is not None;  cur = the key/value pairs combined so far into the paragraph in
\* progress, as [i |-> line number, k |-> key];  paras = closed paragraphs;  ferr / frun = first and last line of
\* the FIRST error element, inrun = the previous token belongs to it;  nerr = error tokens so far
SInit == [open |-> FALSE, cur |-> <<>>, paras |-> <<>>, ferr |-> 0, frun |-> 0, inrun |-> FALSE, nerr |-> 0,
          lineno |-> 0]

Flush(s) == IF s.cur = <<>> THEN s.paras ELSE Append(s.paras, s.cur)

Branches == {"Blank", "Comment", "ContOpen", "ContOrphan", "Field", "Junk"}

G(b, s, c) ==
  CASE b = "Blank"      -> c = "B"
    [] b = "Comment"    -> c = "C"
    [] b = "ContOpen"   -> c = "K" /\ s.open
    [] b = "ContOrphan" -> c = "K" /\ ~s.open
    [] b = "Field"      -> c = "F"
    [] b = "Junk"       -> c = "J"

\* the same decision in the order of the tests of the code
BranchOf(s, c) ==
  IF c = "B" THEN "Blank"
  ELSE IF c = "C" THEN "Comment"
  ELSE IF c = "K" THEN (IF s.open THEN "ContOpen" ELSE "ContOrphan")
  ELSE IF c = "F" THEN "Field"
  ELSE "Junk"

\* an error token at line i: starts or extends the first error element; ends the paragraph in progress
ErrTok(s, i, mode) ==
  LET first == s.ferr = 0
      ext   == first \/ s.inrun
  IN [s EXCEPT !.nerr = @ + 1,
               !.ferr = IF first THEN i ELSE @,
               !.frun = IF ext THEN i ELSE @,
               !.inrun = ext,
               !.paras = IF mode = "glue" THEN @ ELSE Flush(s),
               !.cur = IF mode = "glue" THEN @ ELSE <<>>]

Apply(b, s, ln, mode) ==
  LET i  == s.lineno + 1
      s1 == [s EXCEPT !.lineno = i]
  IN CASE b = "Blank"      -> IF DupAcrossBlank THEN [s1 EXCEPT !.open = FALSE, !.inrun = FALSE]
                              ELSE [s1 EXCEPT !.open = FALSE, !.inrun = FALSE, !.paras = Flush(s), !.cur = <<>>]
       [] b = "Comment"    -> [s1 EXCEPT !.inrun = FALSE, !.open = IF CommentClosesField THEN FALSE ELSE @]
       [] b = "ContOpen"   -> [s1 EXCEPT !.inrun = FALSE]
       [] b = "ContOrphan" -> ErrTok(s1, i, mode)
       [] b = "Field"      -> [s1 EXCEPT !.inrun = FALSE, !.open = TRUE, !.cur = Append(@, [i |-> i, k |-> Key(ln)])]
       [] b = "Junk"       -> LET t == ErrTok(s1, i, mode) IN
                              IF mode = "strict" THEN [t EXCEPT !.open = FALSE] ELSE t

StepF(s, ln, mode) == Apply(BranchOf(s, ln.c), s, ln, mode)

\* the automaton over ls[lo..hi], split in halves (recursion depth log n: large files stay cheap)
RECURSIVE RunRange(_, _, _, _, _)
RunRange(s, ls, lo, hi, mode) ==
  IF lo > hi THEN s
  ELSE IF lo = hi THEN StepF(s, ls[lo], mode)
  ELSE LET mid  == (lo + hi) \div 2
           left == RunRange(s, ls, lo, mid, mode)
       IN IF left.open \in BOOLEAN THEN RunRange(left, ls, mid + 1, hi, mode) ELSE left
Run(ls, mode) == RunRange(SInit, ls, 1, Len(ls), mode)

\* ---- what the API shows at the end of the file
\* the line of the first field that repeats an earlier key of the paragraph (0: none)
DupLine(p) == LET J == {j \in 1..Len(p) : \E i \in 1..(j - 1) : p[i].k = p[j].k}
              IN IF J = {} THEN 0 ELSE p[RaMin(J)].i
Result(s) ==
  LET P  == Flush(s)
      DP == {q \in 1..Len(P) : DupLine(P[q]) # 0}
      dp == IF DP = {} THEN 0 ELSE RaMin(DP)
  IN [ferr  |-> s.ferr, frun |-> s.frun, nerr |-> s.nerr,
      paras |-> [q \in 1..Len(P) |-> [j \in 1..Len(P[q]) |-> P[q][j].i]],       \* field lines per paragraph
      dups  |-> [q \in 1..Len(P) |-> DupLine(P[q]) # 0],
      dupp  |-> dp,                                                             \* first paragraph with a duplicate
      dupi  |-> IF dp = 0 THEN 0 ELSE DupLine(P[dp]),                           \* line of the repeating field
      valid |-> s.ferr = 0 /\ P # <<>> /\ DP = {}]
Parse(ls, mode) == Result(Run(ls, mode))

\* outcome of parse_deb822_file(e = accept_files_with_error_tokens, d = accept_files_with_duplicated_fields)
Outcome(r, e, d) ==
  IF ~e /\ r.ferr # 0 THEN (IF ~d /\ r.dupp # 0 THEN {"syntax", "dup"} ELSE {"syntax"})      \* (u2)
  ELSE IF ~d /\ r.dupp # 0 THEN {"dup"}
  ELSE {"ok"}
FlagPairs == << <<FALSE, FALSE>>, <<FALSE, TRUE>>, <<TRUE, FALSE>>, <<TRUE, TRUE>> >>
\* the acceptable outcomes: the readings of (u1) together
Acc(ls, e, d) == Outcome(Parse(ls, "code"), e, d) \cup Outcome(Parse(ls, "glue"), e, d)

\* everything the harness compares, with -1 / "U" where the readings of (u1) disagree
SetToSeq(S) == (IF "ok" \in S THEN <<"ok">> ELSE <<>>) \o (IF "syntax" \in S THEN <<"syntax">> ELSE <<>>)
               \o (IF "dup" \in S THEN <<"dup">> ELSE <<>>)
Expected(ls) ==
  LET rc == Parse(ls, "code")
      rs == Parse(ls, "strict")
      rg == Parse(ls, "glue")
      pOK == rc.paras = rg.paras /\ rc.dups = rg.dups
  IN [ferr  |-> rc.ferr,
      frun  |-> IF rc.frun = rs.frun THEN rc.frun ELSE -1,
      nerr  |-> IF rc.nerr = rs.nerr THEN rc.nerr ELSE -1,
      pok   |-> pOK,
      paras |-> IF pOK THEN rc.paras ELSE <<>>,
      dups  |-> IF pOK THEN rc.dups ELSE <<>>,
      dupp  |-> IF pOK THEN rc.dupp ELSE -1,
      dupi  |-> IF pOK THEN rc.dupi ELSE -1,
      valid |-> rc.valid,
      acc   |-> [q \in 1..4 |-> SetToSeq(Outcome(rc, FlagPairs[q][1], FlagPairs[q][2])
                                             \cup Outcome(rg, FlagPairs[q][1], FlagPairs[q][2]))]]

----------------------------------------------------------------------------
(* the grammar, written independently of the automaton *)
FieldBefore(D, i, stop) == \E j \in 1..(i - 1) : D[j].c = "F" /\ \A m \in (j + 1)..(i - 1) : D[m].c \notin stop
IsErrD(D, i)  == D[i].c = "J" \/ (D[i].c = "K" /\ ~FieldBefore(D, i, {"B"}))          \* the statement
IsErrS(D, i)  == D[i].c = "J" \/ (D[i].c = "K" /\ ~FieldBefore(D, i, {"B", "J"}))     \* reading "strict"
FirstOf(S)    == IF S = {} THEN 0 ELSE RaMin(S)
FirstErrD(D)  == FirstOf({i \in 1..Len(D) : IsErrD(D, i)})
FirstErrS(D)  == FirstOf({i \in 1..Len(D) : IsErrS(D, i)})
FieldsOf(D)   == {i \in 1..Len(D) : D[i].c = "F"}
SameParaD(D, i, j) == \A m \in i..j : D[m].c # "B" /\ ~IsErrD(D, m)
SameName(D, i, j)  == D[i].n = D[j].n                                                   \* up to case: v is ignored
DupD(D) == \E i, j \in FieldsOf(D) : i < j /\ SameName(D, i, j) /\ SameParaD(D, i, j)

----------------------------------------------------------------------------
(* ESpec: every line *)
EInit == yln = <<>> /\ yst = SInit /\ ydoc = <<>>
\* (nothing is appended after a CR: a CR elsewhere than at the end is outside the domain (u3); Classify
\*  answers Unspec for it, see badR, but those lines are not enumerated)
ENext == /\ Len(yln) < MaxLen
         /\ (IF yln = <<>> THEN TRUE ELSE yln[Len(yln)].c # "R")
         /\ \E c \in CharClasses : yln' = Append(yln, Rn(c, 1))
         /\ UNCHANGED <<yst, ydoc>>
ESpec == EInit /\ [][ENext]_vars

EShape     == ShapeOK(yln)
ERunAgrees == Classify(MergeRuns(yln)) = Classify(yln)
\* what follows the deciding characters is irrelevant (anything but a CR in the wrong place)
EStable == LET r == Classify(yln) IN
           (r.c \in {"Field", "Comment", "Cont"} /\ yln[Len(yln)].c # "R") =>
              \A c \in CharClasses \ {"R"} : Classify(Append(yln, Rn(c, 1))) = r
EmitLine == Emit => LET r == Classify(yln) IN
                    PrintT(<<"CASE", ToJson(<<[i \in 1..Len(yln) |-> yln[i].c], r.c, r.nlen>>)>>)

\* the line in context: CTX table, printed once.  Context fields use name ids 8 / 9, the line itself (if a field) id 1
CtxLine(c) == Ln(c, IF c = "F" THEN 1 ELSE 0, 0)
CtxFiles(c) == << <<CtxLine(c)>>,
                  <<Ln("F", 9, 0), CtxLine(c)>>,
                  <<Ln("F", 9, 0), CtxLine(c), Ln("F", 8, 0)>>,
                  <<Ln("F", 9, 0), Ln("B", 0, 0), CtxLine(c), Ln("F", 8, 0)>>,
                  <<Ln("F", 9, 0), Ln("C", 0, 0), CtxLine(c), Ln("K", 0, 0)>> >>
CtxEntry(c) == [c |-> c, files |-> CtxFiles(c), exp |-> [q \in 1..Len(CtxFiles(c)) |-> Expected(CtxFiles(c)[q])]]
CtxTable == (Emit /\ MaxLen > 0) => PrintT(<<"CTX", ToJson([q \in 1..5 |-> CtxEntry((<<"B", "C", "K", "F", "J">>)[q])])>>)
ASSUME CtxTable

----------------------------------------------------------------------------
(* LSpec: every file, one action per branch *)
Alphabet == {Ln("B", 0, 0), Ln("C", 0, 0), Ln("K", 0, 0), Ln("J", 0, 0), Ln("F", 1, 0), Ln("F", 1, 1), Ln("F", 2, 0)}

LInit == yst = SInit /\ ydoc = <<>> /\ yln = <<>>
LNext == /\ Len(ydoc) < MaxLines
         /\ \E ln \in Alphabet, b \in Branches :
               /\ G(b, yst, ln.c)
               /\ yst' = Apply(b, yst, ln, "code")
               /\ ydoc' = Append(ydoc, ln)
         /\ UNCHANGED yln
LSpec == LInit /\ [][LNext]_vars

ITotality  == \A c \in LineClasses : /\ Cardinality({b \in Branches : G(b, yst, c)}) = 1
                                     /\ G(BranchOf(yst, c), yst, c)
IRunAgrees == yst = Run(ydoc, "code") /\ yst.lineno = Len(ydoc)
IFirstErr  == /\ yst.ferr = FirstErrD(ydoc)
              /\ FirstErrS(ydoc) = FirstErrD(ydoc)
              /\ \A m \in Modes : Run(ydoc, m).ferr = FirstErrD(ydoc)
              /\ Run(ydoc, "strict").nerr = Cardinality({i \in 1..Len(ydoc) : IsErrS(ydoc, i)})
              /\ yst.nerr = Cardinality({i \in 1..Len(ydoc) : IsErrD(ydoc, i)})
              /\ (yst.ferr # 0 => /\ yst.frun >= yst.ferr
                                  /\ \A i \in yst.ferr..yst.frun : IsErrD(ydoc, i)
                                  /\ (yst.frun < Len(ydoc) => ~IsErrD(ydoc, yst.frun + 1))
                                  /\ (yst.inrun <=> yst.frun = Len(ydoc)))
IErrFree   == FirstErrD(ydoc) = 0 => \A m \in Modes : Parse(ydoc, m) = Parse(ydoc, "code")
IParas     == LET P == Parse(ydoc, "code").paras IN
              /\ \A q \in 1..Len(P) : P[q] # <<>> /\ \A j \in 1..(Len(P[q]) - 1) : P[q][j] < P[q][j + 1]
              /\ \A q \in 1..(Len(P) - 1) : P[q][Len(P[q])] < P[q + 1][1]
              /\ UNION {{P[q][j] : j \in 1..Len(P[q])} : q \in 1..Len(P)} = FieldsOf(ydoc)
              /\ \A i, j \in FieldsOf(ydoc) : i <= j =>
                    ((\E q \in 1..Len(P) : \E a, b \in 1..Len(P[q]) : P[q][a] = i /\ P[q][b] = j) <=> SameParaD(ydoc, i, j))
IDup       == LET r == Parse(ydoc, "code") IN
              /\ (r.dupp # 0) <=> DupD(ydoc)
              /\ r.dupi = FirstOf({j \in FieldsOf(ydoc) : \E i \in FieldsOf(ydoc) :
                                      i < j /\ SameName(ydoc, i, j) /\ SameParaD(ydoc, i, j)})
              /\ \A q \in 1..Len(r.paras) :
                    r.dups[q] <=> \E a, b \in 1..Len(r.paras[q]) : a < b /\ SameName(ydoc, r.paras[q][a], r.paras[q][b])
IValid     == Parse(ydoc, "code").valid <=> (FirstErrD(ydoc) = 0 /\ FieldsOf(ydoc) # {} /\ ~DupD(ydoc))
IFlags     == LET a(e, d) == Acc(ydoc, e, d)
                  r == Parse(ydoc, "code") IN
              /\ a(TRUE, TRUE) = {"ok"}
              /\ (a(FALSE, TRUE) = {"ok"}) <=> (FirstErrD(ydoc) = 0)
              /\ a(FALSE, TRUE) # {"ok"} => a(FALSE, TRUE) = {"syntax"}
              /\ FirstErrD(ydoc) = 0 => ((a(TRUE, FALSE) = {"dup"}) <=> DupD(ydoc)) /\ a(TRUE, FALSE) \in {{"ok"}, {"dup"}}
              /\ ("ok" \in a(FALSE, FALSE)) <=> ("ok" \in a(FALSE, TRUE) /\ "ok" \in a(TRUE, FALSE))
              /\ r.valid <=> (a(FALSE, FALSE) = {"ok"} /\ r.paras # <<>>)
IPrefix    == [][/\ yst.ferr # 0 => (yst'.ferr = yst.ferr /\ yst'.frun >= yst.frun)
                 /\ \A q \in 1..Len(yst.paras) : q <= Len(yst'.paras) /\ yst'.paras[q] = yst.paras[q]]_vars
\* size stress: a blank line, a comment line or a continuation line that is in place (in every reading) may stand
\* for a run of copies of itself: nothing changes but the line numbers behind it
CanRepeat(D, i) == D[i].c \in {"B", "C"} \/ (D[i].c = "K" /\ ~IsErrS(D, i))
Sh(k, i) == IF k > i THEN k + 1 ELSE k
ShiftExp(x, i) == [x EXCEPT !.ferr = Sh(@, i), !.frun = Sh(@, i), !.dupi = Sh(@, i),
                            !.paras = [q \in 1..Len(@) |-> [j \in 1..Len(@[q]) |-> Sh(@[q][j], i)]]]
IStutter   == \A i \in 1..Len(ydoc) : CanRepeat(ydoc, i) =>
                 Expected(SubSeq(ydoc, 1, i) \o <<ydoc[i]>> \o SubSeq(ydoc, i + 1, Len(ydoc))) = ShiftExp(Expected(ydoc), i)
EmitCase   == Emit => PrintT(<<"CASE", ToJson([lines |-> [i \in 1..Len(ydoc) |-> <<ydoc[i].c, ydoc[i].n, ydoc[i].v>>], n |-> Len(ydoc),
                                               rep |-> [i \in 1..Len(ydoc) |-> CanRepeat(ydoc, i)], exp |-> Expected(ydoc)])>>)

----------------------------------------------------------------------------
(* BigSpec: size stress -- a few LARGE uniform files: <<paragraphs, fields, continuation lines, tail>>.     *)
(* Every paragraph uses the SAME names 1..fields (never a duplicate across paragraphs).  tail: 0 = clean,   *)
(* 1 = the last paragraph repeats its first name (other spelling) after its last field, 2 = junk line after *)
(* a final blank line, 3 = continuation line after a final blank line, 4 = the FIRST paragraph repeats its  *)
(* last name at its end and a junk line ends the file, 5 = junk inside the last paragraph followed by a     *)
(* field repeating the first name (the readings of (u1) disagree), 6 = comment lines between every field.   *)
BigTable == << <<10, 1, 0, 0>>, <<100, 2, 1, 1>>, <<1000, 1, 0, 2>>, <<1, 257, 0, 1>>, <<1, 100, 1, 4>>,
               <<1, 1, 1000, 0>>, <<2, 2, 101, 3>>, <<10, 10, 2, 5>>, <<33, 3, 9, 6>>, <<1, 1001, 0, 1>>,
               <<257, 1, 1, 4>>, <<3, 17, 16, 2>>, <<1, 2, 32767, 3>>, <<32769, 1, 0, 2>> >>
RECURSIVE FlatR(_, _, _)
FlatR(ss, lo, hi) == IF lo > hi THEN <<>>
                     ELSE IF lo = hi THEN ss[lo]
                     ELSE LET mid == (lo + hi) \div 2 IN FlatR(ss, lo, mid) \o FlatR(ss, mid + 1, hi)
Flat(ss) == FlatR(ss, 1, Len(ss))
BigField(t, p, f) == (IF t[4] = 6 THEN <<Ln("C", 0, 0)>> ELSE <<>>)
                     \o <<Ln("F", f, (p + f) % 2)>> \o [j \in 1..t[3] |-> IF t[4] = 6 /\ j % 3 = 0 THEN Ln("C", 0, 0) ELSE Ln("K", 0, 0)]
BigPara(t, p) == Flat([f \in 1..t[2] |-> BigField(t, p, f)])
                 \o (IF t[4] = 4 /\ p = 1 THEN <<Ln("F", t[2], (p + t[2] + 1) % 2)>> ELSE <<>>)
                 \o (IF t[4] = 1 /\ p = t[1] THEN <<Ln("F", 1, p % 2)>> ELSE <<>>)
                 \o (IF t[4] = 5 /\ p = t[1] THEN <<Ln("J", 0, 0), Ln("F", 1, p % 2)>> ELSE <<>>)
BigTail(t) == CASE t[4] = 2 -> <<Ln("B", 0, 0), Ln("J", 0, 0), Ln("J", 0, 0), Ln("F", 1, 0)>>
                [] t[4] = 3 -> <<Ln("B", 0, 0), Ln("C", 0, 0), Ln("K", 0, 0), Ln("B", 0, 0)>>
                [] t[4] = 4 -> <<Ln("J", 0, 0)>>
                [] OTHER    -> <<>>
BigFile(t) == Flat([p \in 1..t[1] |-> IF p = 1 THEN BigPara(t, p) ELSE <<Ln("B", 0, 0)>> \o BigPara(t, p)]) \o BigTail(t)

BigInit == /\ yst \in {[SInit EXCEPT !.lineno = i] : i \in BigSel}
           /\ ydoc = <<>> /\ yln = <<>>
BigNext == /\ ydoc = <<>> /\ ydoc' = BigFile(BigTable[yst.lineno]) /\ UNCHANGED <<yst, yln>>
BigSpec == BigInit /\ [][BigNext]_vars
BigInvariant ==
    ydoc # <<>> =>
    LET t == BigTable[yst.lineno]
        x == Expected(ydoc)
        n == Len(ydoc)
        perF == 1 + t[3] + (IF t[4] = 6 THEN 1 ELSE 0)
    IN /\ (t[4] \in {0, 6} => /\ x.ferr = 0 /\ x.dupp = 0 /\ x.valid /\ Len(x.paras) = t[1] /\ x.nerr = 0
                              /\ x.acc = <<<<"ok">>, <<"ok">>, <<"ok">>, <<"ok">>>>)
       /\ (t[4] = 1 => /\ x.ferr = 0 /\ x.dupp = t[1] /\ x.dupi = n /\ ~x.valid /\ Len(x.paras[t[1]]) = t[2] + 1
                       /\ x.acc = <<<<"dup">>, <<"ok">>, <<"dup">>, <<"ok">>>>)
       /\ (t[4] = 2 => /\ x.ferr = n - 2 /\ x.frun = n - 1 /\ x.nerr = 2 /\ x.dupp = 0 /\ ~x.valid /\ Len(x.paras) = t[1] + 1
                       /\ x.acc = <<<<"syntax">>, <<"syntax">>, <<"ok">>, <<"ok">>>>)
       /\ (t[4] = 3 => /\ x.ferr = n - 1 /\ x.frun = n - 1 /\ x.nerr = 1 /\ x.dupp = 0 /\ ~x.valid /\ Len(x.paras) = t[1]
                       /\ x.acc = <<<<"syntax">>, <<"syntax">>, <<"ok">>, <<"ok">>>>)
       /\ (t[4] = 4 => /\ x.ferr = n /\ x.frun = n /\ x.dupp = 1 /\ x.dupi = t[2] * perF + 1 /\ ~x.valid
                       /\ x.acc = <<<<"syntax", "dup">>, <<"syntax">>, <<"dup">>, <<"ok">>>>)
       /\ (t[4] = 5 => /\ x.ferr = n - 1 /\ x.frun = n - 1 /\ x.nerr = 1 /\ ~x.pok /\ x.dupp = -1 /\ ~x.valid
                       /\ x.acc = <<<<"syntax", "dup">>, <<"syntax">>, <<"ok", "dup">>, <<"ok">>>>)
EmitBig == (Emit /\ ydoc # <<>>) =>
           PrintT(<<"CASE", ToJson([lines |-> [i \in 1..Len(ydoc) |-> <<ydoc[i].c, ydoc[i].n, ydoc[i].v>>], n |-> Len(ydoc),
                                    exp |-> Expected(ydoc), dims |-> BigTable[yst.lineno]])>>)
=============================================================================
