CONSTANTS
  Names = {1, 2}
  Start <- StartDocLevel
  MaxParas = 2
  EditFields = FALSE
  SetVals = {101}
  SetSpells = {"U"}
  Ops = {"insert", "append", "appendo", "inserto"}
  Emit = FALSE
  RefusedLeaves <- NegRefusedPreparesTail
SPECIFICATION Spec
INVARIANT NoEmptyPara
PROPERTY ErrAtomic
VIEW DocView
CHECK_DEADLOCK FALSE
