CONSTANTS
  Alphabet = {}
  MaxLen = 0
  LemmaLen = 0
  GpgLen = 0
  StrictDroppedInGpgClasses = FALSE
  PosStrictMissedByPrepass = FALSE
  ZoneWhatIf = FALSE
  Emit = FALSE
  NoIndentRule = FALSE
  AllowEndLF = FALSE
  ValidateLFOnly = FALSE
  ReaderNoWsRule = FALSE
SPECIFICATION TSpec
CHECK_DEADLOCK FALSE
