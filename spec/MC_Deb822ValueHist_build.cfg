\* C08 histories with construction: closed state space (three live objects, keys A / Files, three values;
\* every paragraph may be replaced by an empty one -- Fresh -- or by one built from a mapping -- Rebuild);
\* prints the complete LTS
CONSTANTS
  Alphabet = {}
  MaxLen = 0
  LemmaLen = 0
  GpgLen = 0
  StrictDroppedInGpgClasses = FALSE
  PosStrictMissedByPrepass = FALSE
  ZoneWhatIf = FALSE
  Emit = FALSE
  NoIndentRule = FALSE
  AllowEndLF = FALSE
  ValidateLFOnly = FALSE
  ReaderNoWsRule = FALSE
  MemoMode = "none"
  RejectStoresEmpty = FALSE
  UseN = FALSE
  WithBuild = TRUE
  TrustSourceClass = FALSE
  ParseLeavesUnchecked = FALSE
  WithFault = TRUE
  DumpMemoPartial = FALSE
  UseExt = FALSE
  AppendFastPath = FALSE
  EmitH = TRUE
SPECIFICATION HSpec
VIEW HView
PROPERTY HistoryFree
INVARIANT HistSound
INVARIANT DumpWhole
CHECK_DEADLOCK FALSE
