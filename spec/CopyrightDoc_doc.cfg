\* C17 document layer, closed (thorough): 2 header kinds x every history of <= 3 add_* calls over the
\* four context paragraphs and at most one focus paragraph (copyright texts of <= 3 lines x license texts
\* of <= 3 lines over E I ID P with 3 patterns; 1..3 patterns with the simplest texts); one call the API REFUSES
\* after 0..3 add_* calls (every kind), followed by add_* calls up to 3 paragraphs; refused calls among the edits of
\* every re-parsed context-only document
\* -- among those calls: the ones the format does not settle (MayReject: a look-alike of white space inside a pattern /
\* a synopsis / a custom value), with BOTH outcomes (acc), and the faults of caller-supplied objects (kind "fault")
CONSTANTS
  Mode = "doc"
  Alphabet = {}
  MaxLen = 0
  MaxParas = 3
  HdrKinds = {"contact3", "full"}
  BigPats = {1, 2, 3}
  CopyMax = 3
  CopyAlpha = {"I"}
  BigTextMax = 3
  BigTextAlpha = {"E", "I", "ID", "P"}
  Emit = TRUE
  NoDotEscape = FALSE
  DecoderStrips = FALSE
  DotAnyIndent = FALSE
  StaleDump = FALSE
  LicMemoBySynopsis = FALSE
  ParseMemoAliased = FALSE
  CommaSeparates = FALSE
  RejectDrops = FALSE
  MayAcceptedSplits = FALSE
  ArgAliased = FALSE
  RejAt = {0, 1, 2, 3}
  RejThen = 3
  RejEditAt = {0, 1, 2, 3}
SPECIFICATION Spec
INVARIANT DocProps
INVARIANT HistoryKept
CHECK_DEADLOCK FALSE
