\* C17 document layer, closed (thorough): 2 header kinds x every history of <= 3 add_* calls over the
\* four context paragraphs and at most one focus paragraph (copyright texts of <= 3 lines x license texts
\* of <= 3 lines over E I ID P with 3 patterns; 1..3 patterns with the simplest texts)
CONSTANTS
  Mode = "doc"
  Alphabet = {}
  MaxLen = 0
  MaxParas = 3
  HdrKinds = {"contact3", "full"}
  BigPats = {1, 2, 3}
  CopyMax = 3
  CopyAlpha = {"I"}
  BigTextMax = 3
  BigTextAlpha = {"E", "I", "ID", "P"}
  Emit = TRUE
  NoDotEscape = FALSE
  DecoderStrips = FALSE
  DotAnyIndent = FALSE
  StaleDump = FALSE
  LicMemoBySynopsis = FALSE
  ParseMemoAliased = FALSE
SPECIFICATION Spec
INVARIANT DocProps
INVARIANT HistoryKept
CHECK_DEADLOCK FALSE
