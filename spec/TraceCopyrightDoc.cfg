CONSTANTS
  Mode = "trace"
  Alphabet = {}
  MaxLen = 0
  MaxParas = 0
  HdrKinds = {}
  BigPats = {}
  CopyMax = 1
  CopyAlpha = {}
  BigTextMax = 0
  BigTextAlpha = {}
  Emit = FALSE
  NoDotEscape = FALSE
  DecoderStrips = FALSE
  DotAnyIndent = FALSE
  StaleDump = FALSE
  LicMemoBySynopsis = FALSE
  ParseMemoAliased = FALSE
  CommaSeparates = FALSE
  RejectDrops = FALSE
  MayAcceptedSplits = FALSE
  ArgAliased = FALSE
  RejAt = {}
  RejThen = 0
  RejEditAt = {}
SPECIFICATION TSpec
CHECK_DEADLOCK FALSE
