CONSTANTS
  PhWhich = "P"
  PhEmit = FALSE
  HMode = "std"
  HMaxChars = 0
  HMaxCls = 1
  HMaxChunks = 1
  PMode = "std"
  PMaxLen = 0
  PMaxIdx = 0
  PMaxHunks = 0
  MMode = "std"
  MRanks = 1
  MMaxLen = 0
  MMaxArgs = 0
  GMode = "std"
  GMaxLen = 0
  GMaxMembers = 1
SPECIFICATION TSpec
CHECK_DEADLOCK FALSE
