----------------------------- MODULE UpdateFile -----------------------------
(***************************************************************************)
(* C19 -- debian_support.update_file(remote, local): bring a local file to *)
(* the content a repository publishes as  full file + pdiff index + ed     *)
(* patches, without ever corrupting the local file.                        *)
(*                                                                         *)
(* One behaviour = one call.  The input of the call is the record `in`:    *)
(*   hist    the published history v0..vn as content ids (repeats allowed; *)
(*           patch i turns hist[i] into hist[i+1]; hist[Len] is current),  *)
(*   h0      how many of the oldest versions the index no longer lists,    *)
(*   local0  the local copy: Absent, Foreign or a content id,              *)
(*   fault   the single fault of this behaviour (record [k, i]),           *)
(*   nw      number of write calls the current content needs (its lines),  *)
(*   flav    hash flavours the index carries.                              *)
(* One action per step of the code, in the code's order (debian_support.py *)
(* update_file / download_file / replace_file):                            *)
(*   ReadLocal FetchIndex ChooseHash UpToDate|PlanPatches|NoPlan           *)
(*   (DownloadPatch VerifyPatch ApplyPatch)* VerifyResult | FullDownload   *)
(*   OpenNew WriteNew* CloseNew Rename CleanupNew Return|Raise             *)
(* What the code verifies (read from the code): a downloaded patch against *)
(* <flavour>-Patches, the patched result against <flavour>-Current; the    *)
(* full download is not verified.  replace_file writes local+'.new',       *)
(* renames it over local and unlinks '.new' in a finally clause.           *)
(*                                                                         *)
(* Content ids are integers so that hashes can be modelled as the identity *)
(* (injective): Absent, Garbage (result of a wrong patch / partial data),  *)
(* Foreign (a text the repository never published), 1.. published texts.   *)
(*                                                                         *)
(* Negative controls (constant Mode, tried with MC_UpdateFile_neg_*.cfg):  *)
(*   "noCleanup"          the finally clause does not unlink '.new'        *)
(*                        -> NeverCorrupt / NoTempLeft fail                *)
(*   "skipVerifyResult"   the patched result is not compared with Current  *)
(*                        -> Converges fails (badLastPatch)                *)
(*   "renameBeforeVerify" replace_file runs before the result check        *)
(*                        -> NeverCorrupt fails (wrongResultHash)          *)
(*   "skipVerifyPatch"    a garbled patch is applied                       *)
(*                        -> RaisedWhereDetected fails                     *)
(***************************************************************************)
EXTENDS Integers, Sequences, FiniteSets, TLC, Json

CONSTANTS MaxN,         \* at most MaxN patches (MaxN + 1 versions)
          Sizes,        \* possible values of in.nw
          FlavourSets,  \* possible values of in.flav
          Mode,         \* "code" or one of the negative controls
          Emit          \* TRUE: print one CASE line per terminal state

VARIABLES in,      \* the input of the call (never changes)
          pc,      \* control point
          lines,   \* content held in memory
          idx,     \* the parsed index: [ok, cur, ents] (ents = patch numbers listed, oldest first)
          hfn,     \* hash flavour chosen
          plan,    \* patches still to apply
          got,     \* the patch just downloaded: [i, q], q in good / garbled / bad
          local,   \* file system: content of the local file
          dotNew,  \* file system: local + '.new'
          wr,      \* write calls completed on '.new'
          exc,     \* pending exception
          ret,     \* returned content
          hit,     \* the fault of this behaviour was reached
          path     \* history variable: the actions taken, [a |-> name, i |-> argument]

vars == <<in, pc, lines, idx, hfn, plan, got, local, dotNew, wr, exc, ret, hit, path>>

Absent  == -2
Garbage == -1
Foreign == 0
Bogus   == -3      \* a hash that is the hash of nothing in this world
NoHash  == -4      \* "the index has no Current field"
NoGot   == [i |-> 0, q |-> "none"]
NoIdx   == [ok |-> FALSE, cur |-> NoHash, ents |-> <<>>]

H(c) == c          \* hashing is injective on content ids

Terminal == {"returned", "raised"}

\* ------------------------------------------------------------------ inputs
NPatches(i) == Len(i.hist) - 1
Current(i)  == i.hist[Len(i.hist)]

\* restricted-growth strings: one representative per renaming of content ids
RGS(len) == {s \in [1..len -> 1..len] :
                /\ s[1] = 1
                /\ \A j \in 2..len : \E m \in 1..(j-1) : s[j] <= s[m] + 1}

F(k, i) == [k |-> k, i |-> i]
RaisingKinds == {"patchCorrupt", "patchTruncated", "badLastPatch", "wrongResultHash",
                 "writeFails", "renameFails"}
IndexKinds   == {"indexMissing", "indexGarbage", "indexEmpty"}

Faults(hist, nw) ==
    LET n == Len(hist) - 1 IN
         {F("none", 0), F("wrongResultHash", 0), F("indexMissing", 0), F("indexGarbage", 0),
          F("indexEmpty", 0), F("renameFails", 0)}
    \cup {F("patchCorrupt", i) : i \in 1..n} \cup {F("patchTruncated", i) : i \in 1..n}
    \cup (IF n >= 1 THEN {F("badLastPatch", n)} ELSE {})
    \cup {F("writeFails", k) : k \in 0..(nw + 1)}      \* 0: open fails, nw+1: close fails

Locals(hist) == {Absent, Foreign} \cup {hist[j] : j \in 1..Len(hist)}

WellFormedInput(i) ==
    /\ Len(i.hist) >= 1
    /\ i.h0 \in 0..NPatches(i)
    /\ i.nw >= 0
    /\ i.local0 \in Locals(i.hist)
    /\ i.fault \in Faults(i.hist, i.nw)

InitVars(i) ==
    /\ in = i /\ pc = "start" /\ lines = Absent /\ idx = NoIdx /\ hfn = "none" /\ plan = <<>>
    /\ got = NoGot /\ local = i.local0 /\ dotNew = "absent" /\ wr = 0 /\ exc = "none"
    /\ ret = Absent /\ hit = FALSE /\ path = <<>>

Init == \E len \in 1..(MaxN + 1) : \E h \in RGS(len) : \E nw \in Sizes : \E fl \in FlavourSets :
        \E h0 \in 0..(len - 1) : \E l0 \in Locals(h) : \E f \in Faults(h, nw) :
            InitVars([hist |-> h, h0 |-> h0, local0 |-> l0, fault |-> f, nw |-> nw, flav |-> fl])

\* ------------------------------------------------------------------ the published index
PublishedIndex ==
    [ok   |-> TRUE,
     cur  |-> IF in.fault.k = "wrongResultHash" THEN Bogus ELSE H(Current(in)),
     ents |-> [j \in 1..(NPatches(in) - in.h0) |-> in.h0 + j]]

\* the code walks <flavour>-History: from the first entry whose hash is the local hash, all entries
PlanFor(c) ==
    LET e  == idx.ents
        js == {j \in 1..Len(e) : H(in.hist[e[j]]) = H(c)}
    IN IF js = {} THEN <<>>
       ELSE LET j0 == CHOOSE j \in js : \A k \in js : j <= k IN SubSeq(e, j0, Len(e))

\* the file a repository serves for patch i
PatchQuality(i) ==
    IF in.fault = F("patchCorrupt", i) THEN "garbled"
    ELSE IF in.fault = F("badLastPatch", i) THEN "bad"    \* consistent with the index, wrong result
    ELSE "good"

PatchApply(g, c) == IF g.q = "good" /\ c = in.hist[g.i] THEN in.hist[g.i + 1] ELSE Garbage

\* ------------------------------------------------------------------ actions
Step(a, i) == path' = Append(path, [a |-> a, i |-> i])

ReadLocal ==
    /\ pc = "start"
    /\ IF local = Absent THEN pc' = "full" /\ lines' = lines      \* IOError: no local copy
                         ELSE pc' = "fetchIndex" /\ lines' = local
    /\ Step("ReadLocal", 0)
    /\ UNCHANGED <<in, idx, hfn, plan, got, local, dotNew, wr, exc, ret, hit>>

FetchIndex ==
    /\ pc = "fetchIndex"
    /\ CASE in.fault.k \in {"indexMissing", "indexGarbage"} ->     \* IOError / ParseError
                idx' = NoIdx /\ pc' = "full" /\ hit' = TRUE
         [] in.fault.k = "indexEmpty" ->                           \* parses to no fields at all
                idx' = [NoIdx EXCEPT !.ok = TRUE] /\ pc' = "chooseHash" /\ hit' = TRUE
         [] OTHER -> idx' = PublishedIndex /\ pc' = "chooseHash" /\ hit' = hit
    /\ Step("FetchIndex", 0)
    /\ UNCHANGED <<in, lines, hfn, plan, got, local, dotNew, wr, exc, ret>>

ChooseHash ==
    /\ pc = "chooseHash"
    /\ hfn' = IF idx.cur # NoHash /\ "SHA256" \in in.flav THEN "SHA256" ELSE "SHA1"
    /\ pc' = "scan"
    /\ Step("ChooseHash", 0)
    /\ UNCHANGED <<in, lines, idx, plan, got, local, dotNew, wr, exc, ret, hit>>

UpToDate ==
    /\ pc = "scan" /\ H(lines) = idx.cur
    /\ pc' = "ret"
    /\ Step("UpToDate", 0)
    /\ UNCHANGED <<in, lines, idx, hfn, plan, got, local, dotNew, wr, exc, ret, hit>>

PlanPatches ==
    /\ pc = "scan" /\ H(lines) # idx.cur /\ PlanFor(lines) # <<>>
    /\ plan' = PlanFor(lines) /\ pc' = "dlPatch"
    /\ Step("PlanPatches", Len(PlanFor(lines)))
    /\ UNCHANGED <<in, lines, idx, hfn, got, local, dotNew, wr, exc, ret, hit>>

NoPlan ==
    /\ pc = "scan" /\ H(lines) # idx.cur /\ PlanFor(lines) = <<>>
    /\ pc' = "full"
    /\ Step("NoPlan", 0)
    /\ UNCHANGED <<in, lines, idx, hfn, plan, got, local, dotNew, wr, exc, ret, hit>>

DownloadPatch ==
    /\ pc = "dlPatch"
    /\ LET i == Head(plan) IN
         /\ IF in.fault = F("patchTruncated", i)
            THEN /\ hit' = TRUE        \* the decompressor fails, or it delivers a prefix
                 /\ \/ exc' = "DownloadError" /\ pc' = "raise" /\ got' = got
                    \/ exc' = exc /\ pc' = "verifyPatch" /\ got' = [i |-> i, q |-> "garbled"]
            ELSE /\ got' = [i |-> i, q |-> PatchQuality(i)] /\ pc' = "verifyPatch"
                 /\ exc' = exc /\ hit' = hit
         /\ Step("DownloadPatch", i)
    /\ UNCHANGED <<in, lines, idx, hfn, plan, local, dotNew, wr, ret>>

VerifyPatch ==
    /\ pc = "verifyPatch"
    /\ IF got.q = "garbled" /\ Mode # "skipVerifyPatch"
       THEN exc' = "ValueError" /\ pc' = "raise" /\ hit' = TRUE
       ELSE exc' = exc /\ pc' = "applyPatch" /\ hit' = hit
    /\ Step("VerifyPatch", got.i)
    /\ UNCHANGED <<in, lines, idx, hfn, plan, got, local, dotNew, wr, ret>>

ApplyPatch ==
    /\ pc = "applyPatch"
    /\ lines' = PatchApply(got, lines)
    /\ hit' = (hit \/ got.q # "good")
    /\ plan' = Tail(plan)
    /\ pc' = IF Tail(plan) # <<>> THEN "dlPatch"
             ELSE IF Mode = "renameBeforeVerify" THEN "open" ELSE "verifyResult"
    /\ Step("ApplyPatch", got.i)
    /\ UNCHANGED <<in, idx, hfn, got, local, dotNew, wr, exc, ret>>

VerifyResult ==
    /\ pc = "verifyResult"
    /\ IF H(lines) # idx.cur /\ Mode # "skipVerifyResult"
       THEN exc' = "ValueError" /\ pc' = "raise" /\ hit' = TRUE
       ELSE exc' = exc /\ hit' = hit /\ pc' = IF Mode = "renameBeforeVerify" THEN "ret" ELSE "open"
    /\ Step("VerifyResult", 0)
    /\ UNCHANGED <<in, lines, idx, hfn, plan, got, local, dotNew, wr, ret>>

FullDownload ==
    /\ pc = "full"
    /\ lines' = Current(in)            \* not verified against the index (there may be none)
    /\ pc' = "open"
    /\ Step("FullDownload", 0)
    /\ UNCHANGED <<in, idx, hfn, plan, got, local, dotNew, wr, exc, ret, hit>>

\* ---- replace_file(lines, local)
OpenNew ==
    /\ pc = "open"
    /\ IF in.fault = F("writeFails", 0)
       THEN exc' = "OSError" /\ pc' = "cleanup" /\ hit' = TRUE /\ UNCHANGED <<dotNew, wr>>
       ELSE /\ dotNew' = IF in.nw = 0 THEN "complete" ELSE "partial"
            /\ wr' = 0 /\ pc' = "write" /\ exc' = exc /\ hit' = hit
    /\ Step("OpenNew", 0)
    /\ UNCHANGED <<in, lines, idx, hfn, plan, got, local, ret>>

WriteNew ==
    /\ pc = "write" /\ wr < in.nw
    /\ LET j == wr + 1 IN
         /\ IF in.fault = F("writeFails", j)
            THEN exc' = "OSError" /\ pc' = "cleanup" /\ hit' = TRUE /\ UNCHANGED <<dotNew, wr>>
            ELSE /\ wr' = j /\ dotNew' = IF j = in.nw THEN "complete" ELSE "partial"
                 /\ UNCHANGED <<pc, exc, hit>>
         /\ Step("WriteNew", j)
    /\ UNCHANGED <<in, lines, idx, hfn, plan, got, local, ret>>

CloseNew ==
    /\ pc = "write" /\ wr = in.nw
    /\ IF in.fault = F("writeFails", in.nw + 1)
       THEN exc' = "OSError" /\ pc' = "cleanup" /\ hit' = TRUE
       ELSE pc' = "rename" /\ UNCHANGED <<exc, hit>>
    /\ Step("CloseNew", 0)
    /\ UNCHANGED <<in, lines, idx, hfn, plan, got, local, dotNew, wr, ret>>

Rename ==
    /\ pc = "rename"
    /\ IF in.fault.k = "renameFails"
       THEN exc' = "OSError" /\ hit' = TRUE /\ UNCHANGED <<local, dotNew>>
       ELSE local' = lines /\ dotNew' = "absent" /\ UNCHANGED <<exc, hit>>
    /\ pc' = "cleanup"
    /\ Step("Rename", 0)
    /\ UNCHANGED <<in, lines, idx, hfn, plan, got, wr, ret>>

\* the finally clause: unlink '.new' if it is (still) there
CleanupNew ==
    /\ pc = "cleanup"
    /\ dotNew' = IF Mode = "noCleanup" THEN dotNew ELSE "absent"
    /\ pc' = IF exc # "none" THEN "raise"
             ELSE IF Mode = "renameBeforeVerify" /\ got # NoGot THEN "verifyResult" ELSE "ret"
    /\ Step("CleanupNew", IF dotNew # "absent" /\ Mode # "noCleanup" THEN 1 ELSE 0)
    /\ UNCHANGED <<in, lines, idx, hfn, plan, got, local, wr, exc, ret, hit>>

CaseLine == Emit => PrintT(<<"CASE", ToJson([in |-> in, path |-> path', pc |-> pc', local |-> local',
                                             dotNew |-> dotNew', ret |-> ret', exc |-> exc',
                                             hit |-> hit', hfn |-> hfn'])>>)

Return ==
    /\ pc = "ret"
    /\ ret' = lines /\ pc' = "returned"
    /\ Step("Return", 0)
    /\ UNCHANGED <<in, lines, idx, hfn, plan, got, local, dotNew, wr, exc, hit>>
    /\ CaseLine

Raise ==
    /\ pc = "raise"
    /\ pc' = "raised"
    /\ Step("Raise", 0)
    /\ UNCHANGED <<in, lines, idx, hfn, plan, got, local, dotNew, wr, exc, ret, hit>>
    /\ CaseLine

Next == \/ ReadLocal \/ FetchIndex \/ ChooseHash \/ UpToDate \/ PlanPatches \/ NoPlan
        \/ DownloadPatch \/ VerifyPatch \/ ApplyPatch \/ VerifyResult \/ FullDownload
        \/ OpenNew \/ WriteNew \/ CloseNew \/ Rename \/ CleanupNew \/ Return \/ Raise

Spec     == Init /\ [][Next]_vars
FairSpec == Spec /\ WF_vars(Next)

\* ------------------------------------------------------------------ properties
TypeOK ==
    /\ WellFormedInput(in)
    /\ pc \in {"start", "fetchIndex", "chooseHash", "scan", "dlPatch", "verifyPatch", "applyPatch",
               "verifyResult", "full", "open", "write", "rename", "cleanup", "ret", "raise"} \cup Terminal
    /\ dotNew \in {"absent", "partial", "complete"}
    /\ wr \in 0..in.nw
    /\ hit \in BOOLEAN

\* the statement of C19
Converges      == pc = "returned" => local = Current(in) /\ ret = Current(in)
NeverCorrupt   == pc = "raised" => local = in.local0 /\ dotNew = "absent"
NoTempLeft     == pc \in Terminal => dotNew = "absent"
AlwaysOldOrNew == local \in {in.local0, Current(in)}
\* hash faults and write faults that are reached end in an error; index faults and faults that
\* are never reached (a corrupt patch the plan does not need, a write fault when nothing has to
\* be written) end in convergence; nothing else raises
FaultRaises    == pc \in Terminal => ((pc = "raised") <=> (hit /\ in.fault.k \in RaisingKinds))
IndexFaultConverges == (pc \in Terminal /\ in.fault.k \in IndexKinds \cup {"none"}) => pc = "returned"
\* a hash mismatch is detected before anything is written, and a garbled patch is never applied
HashKinds == {"patchCorrupt", "patchTruncated", "badLastPatch", "wrongResultHash"}
HashFaultWritesNothing ==
    (hit /\ in.fault.k \in HashKinds) => (dotNew = "absent" /\ local = in.local0 /\ wr = 0)
GarbledNeverApplied == pc = "applyPatch" => got.q # "garbled"
\* how it converges: patches when the local content is listed, otherwise the full file
Has(a) == \E j \in 1..Len(path) : path[j].a = a
ByPatchesWhenListed ==
    pc = "returned" =>
       LET listed == \E i \in (in.h0 + 1)..NPatches(in) : in.hist[i] = in.local0
           usable == in.fault.k \notin IndexKinds
           uptodate == in.local0 = Current(in) /\ in.fault.k # "wrongResultHash"
       IN /\ (uptodate /\ usable) => ~Has("OpenNew")
          /\ (listed /\ usable /\ ~uptodate) => (Has("ApplyPatch") /\ ~Has("FullDownload"))
          /\ (~listed /\ ~uptodate) => Has("FullDownload")
          /\ ~usable => Has("FullDownload")
\* no step is stuck before the end: Done is the only step of a terminal state, so TLC's deadlock
\* check is "every non-terminal state has a successor"
Done  == pc \in Terminal /\ UNCHANGED vars
SpecD == Init /\ [][Next \/ Done]_vars
Terminates == <>(pc \in Terminal)
=============================================================================
