\* C12 -- NEGATIVE CONTROL: the width table of the first dump is remembered until a field is assigned or deleted (not when a list changes in place); WidthRule must be violated
CONSTANTS
  Tables <- DocTables
  Modes <- ModesNegCache
  IterateAllFields = FALSE
  SplitEverySpace = FALSE
  CacheWidths = TRUE
  SharedEqualRecords = FALSE
  ClassLevelOption = FALSE
  StoreBeforeValidate = FALSE
  ReorderStoresPlainKeys = FALSE
  RefusedUnlinksFirst = FALSE
  Emit = FALSE
  EmitOff = 0
SPECIFICATION Spec
INVARIANT TypeOK
INVARIANT DumpTotal
INVARIANT RecordsRoundTrip
INVARIANT SubFieldNames
INVARIANT WidthRule
INVARIANT RightAligned
CHECK_DEADLOCK FALSE
