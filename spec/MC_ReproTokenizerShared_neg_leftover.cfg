CONSTANTS
  LineIds = {1, 2}
  MaxLen = 2
  MaxDocs = 3
  MaxEdits = 2
  SharedTokens = FALSE
  LeftoverRunBuffer = TRUE
  MaxFails = 1
SPECIFICATION Spec
INVARIANT UnmodifiedLossless
CHECK_DEADLOCK FALSE
