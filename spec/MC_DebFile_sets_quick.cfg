CONSTANTS
  Universe <- QuickUniverse
  MaxLen = 15
  AnyOrder = FALSE
  InitMatrix = FALSE
  ScriptUniverse = {}
  FileNames = {}
  Blobs = {}
  Decompressors = {"gz", "bz2", "xz", "lzma"}
  AcceptFirstCandidate = FALSE
  InfoOptional = FALSE
  NormalizeSlash = TRUE
  Emit = TRUE
  EmitProbe = FALSE
SPECIFICATION Spec
INVARIANT AcceptIffWellFormed
INVARIANT PartsAreCandidates
INVARIANT OrderIrrelevant
INVARIANT ExtGateDead
INVARIANT SpellingInvariant
INVARIANT ContentExact
INVARIANT LazyDecompress
PROPERTY QueriesPure
VIEW DView
CHECK_DEADLOCK FALSE
