CONSTANTS
  WsSeparates = TRUE
  NoText = 0
  TrimFirst = TRUE
  CommentEndsValue = FALSE
  LeadingBlankSkipped = TRUE
  ArmorHeadersSkipped = TRUE
  GpgMvLeadOK = TRUE
  Keys = {}
  MaxPara = 3
  MaxFields = 3
  MaxCont = 2
  MaxTotal = 4
  ShapeMode = 0
  ArmorHdrs = {0, 1, 2}
  SigBools = {TRUE, FALSE}
  BigSel = {}
  ArmorMaxFields = 3
  Emit = FALSE
SPECIFICATION BSpec
INVARIANT RoundTrip
INVARIANT ParseOneOk
INVARIANT CommentInvariant
INVARIANT LeadingBlankInvariant
INVARIANT TrailingInvariant
INVARIANT SeparatorInvariant
INVARIANT ArmorInvariant
INVARIANT GpgMvAgrees
CHECK_DEADLOCK FALSE
