CONSTANTS
  GMaxLines = 0
  GPalette = {}
  GMaxLen = 8
  GShort = 4
  ArglessQuirk = FALSE
  FirstWins = FALSE
  ValidAny = FALSE
  GEmit = TRUE
SPECIFICATION LSpec
INVARIANT GTypeOK
INVARIANT LineRefines
INVARIANT EmitLine
CHECK_DEADLOCK FALSE
