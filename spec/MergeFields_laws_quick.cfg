CONSTANTS
  Ids = {1, 2}
  Objs = {"p", "q", "r"}
  Moves = FALSE
  Shapes = FALSE
  Defects = {}
  NoSort = FALSE
  Emit = FALSE
SPECIFICATION Spec
INVARIANT LawAssociative
CHECK_DEADLOCK FALSE
