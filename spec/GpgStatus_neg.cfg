CONSTANTS
  GMaxLines = 2
  GPalette = {1, 2, 3, 4, 5, 6, 7, 8, 9, 10, 11, 12, 13, 14}
  GMaxLen = 0
  GShort = 4
  ArglessQuirk = FALSE
  FirstWins = FALSE
  ValidAny = FALSE
  GEmit = FALSE
SPECIFICATION Spec
INVARIANT GTypeOK
INVARIANT ImplRefines
INVARIANT LastWins
INVARIANT StmtFoldIsRefMap
INVARIANT ValidIffSig
INVARIANT NonStatusIgnored
CHECK_DEADLOCK FALSE
