CONSTANTS
  NC = 8
  Chunk = 5
  Scripts = {}
  ArgK = {}
  Lims = {}
  Preds = {}
  MaxGens = 0
  Latch = TRUE
  UseClosed = TRUE
  Bug = "none"
  Emit = FALSE
SPECIFICATION TSpec
INVARIANT TInv
CHECK_DEADLOCK FALSE
