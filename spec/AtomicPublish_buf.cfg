CONSTANTS
  ApEntries = {"replace_file", "download_file", "download_gunzip_lines"}
  ApMode = "std"
  ApMaxW = 2
  ApBuffered = TRUE
  ApEmit = FALSE
SPECIFICATION ApSpec
CHECK_DEADLOCK FALSE
INVARIANT ApTypeOK
INVARIANT OldOrNew
INVARIANT HeldIntact
INVARIANT NoTempLeft
INVARIANT TempDiscipline
INVARIANT RaisedUntouched
INVARIANT ReturnedPublished
INVARIANT FaultRaises
INVARIANT NoStuck
INVARIANT StaleRemovedWhenReached
