CONSTANTS
  ApEntries = {"replace_file", "download_file", "download_gunzip_lines"}
  ApMode = "std"
  ApMaxW = 2
  ApBuffered = TRUE
  ApEmit = FALSE
SPECIFICATION ApLive
CHECK_DEADLOCK FALSE
PROPERTY Terminates
