-------------------------- MODULE TraceArMember --------------------------
(***************************************************************************)
(* C06 -- trace validation: histories recorded from the real ArFile /      *)
(* ArMember classes (harness/props/c06.py) are checked against the actions *)
(* of the reference layer ArMemberRef.                                     *)
(*                                                                         *)
(* A trace is [mem |-> <<[name, data, meta]>>, events |-> <<event>>]:      *)
(* mem is the layout the harness wrote into the archive (data = sequence   *)
(* of byte values, meta = the recorded owner/group/mtime as strings).      *)
(* Events:                                                                 *)
(*   [op |-> "open", members |-> <<[name, size, meta]>>, last, exc]        *)
(*      what ArFile listed; last[k] = position of getmember(name of k)     *)
(*   [op, m, args, ret, n, tell, exc]  a call on member m: ret = chunks of *)
(*      byte values returned (one chunk, or one per line for readlines),   *)
(*      n = integer result (tell), tell = m.tell() right after the call,   *)
(*      exc = name of the exception raised ("" if none).                   *)
(* The module recomputes every result from the logged layout with the      *)
(* BytesIO operators of the reference: the returned bytes must be exactly  *)
(* the cells mem[m].data[pos+1 .. pos'], the position must be the model's. *)
(* In the domain (D4) the specification predicts no exception at all.      *)
(* API variants (next(), readlines(None), seek(off), keyword arguments)    *)
(* are logged under the abstract call they stand for.  readlines(h >= 1)   *)
(* may return any number of complete lines that reaches the hint or the    *)
(* end; list(member) must return every remaining line (IterSingleLine is  *)
(* FALSE: the former deviation is fixed and no longer admitted).  Names    *)
(* are logged as code-point hex strings.                                   *)
(* Faults of the caller's file object (ArFile(fileobj=f), f raising or      *)
(* returning short once at a chosen step) are ordinary events of a history: *)
(*   [op |-> "openfault", exc]            ArFile(fileobj=f) raised           *)
(*   [op |-> "fault", m, kind, args, ret, tell, exc]   a call raised; kind = *)
(*      "one" (read / readline forms) or "lines" (readlines / list())       *)
(*   [op |-> "short", m, args, ret, tell, exc]  a call returned while f     *)
(*      delivered short                                                     *)
(* and every later event must be explained as if nothing had happened.     *)
(* Results belong to the caller: [op |-> "edit"] (the harness edited, in   *)
(* place, every list handed out so far) is no action of the archive, and   *)
(* [op |-> "names", names, exc] (getnames() asked again afterwards) must   *)
(* still list every member in order.                                       *)
(* Batched: <<"ACCEPTED", tid>> is printed for every trace explained       *)
(* completely, <<"AT", tid, l>> per explained event when TRACE_DIAG = "1". *)
(***************************************************************************)
EXTENDS ArMemberRef, IOUtils, TLCExt

Traces == JsonDeserialize(IOEnv.TRACE_FILE)
Diag   == IOEnv.TRACE_DIAG = "1"

VARIABLES tid, l

Tr == Traces[tid]

TInit == /\ tid \in 1..Len(Traces)
         /\ l = 1
         /\ mem = Traces[tid].mem
         /\ opened = FALSE
         /\ pos = [m \in 1..Len(mem) |-> 0]
         /\ aidx = NoIdx /\ aret = NoRes /\ am = 0

\* the bytes behind a result of the reference (chunks of cell indices of member data d)
RBytes(r, d) == [a \in 1..Len(r.v) |-> [j \in 1..Len(r.v[a]) |-> d[r.v[a][j]]]]

TOpen(e) == /\ AOpen
            /\ e.exc = ""
            /\ Len(e.members) = Len(aidx'.members)
            /\ \A k \in 1..Len(e.members) :
                  /\ e.members[k].name = aidx'.members[k].name
                  /\ e.members[k].size = aidx'.members[k].size
                  /\ e.members[k].meta = mem[aidx'.members[k].id].meta
            /\ e.last = aidx'.last

TCall(e) == /\ e.m \in 1..Len(mem)
            /\ \/ e.op = "read"      /\ ARead(e.m)
               \/ e.op = "readn"     /\ AReadN(e.m, e.args[1])
               \/ e.op = "readline"  /\ AReadLine(e.m)
               \/ e.op = "readlinen" /\ AReadLineN(e.m, e.args[1])
               \/ e.op = "readlines" /\ AReadLines(e.m)
               \/ e.op = "readlinesh" /\ AReadLinesHint(e.m, e.args[1], Len(e.ret))   \* readlines(h), h >= 1
               \/ e.op = "iter"      /\ AIter(e.m, Len(e.ret))                        \* list(member)
               \/ e.op = "seek"      /\ ASeek(e.m, e.args[1], e.args[2])
               \/ e.op = "tell"      /\ ATell(e.m)
            /\ e.exc = ""
            /\ e.ret = RBytes(aret', D(e.m))
            /\ e.n = aret'.n
            /\ e.tell = pos'[e.m]

\* total length of the chunks of an event
RECURSIVE RetLen(_)
RetLen(r) == IF r = <<>> THEN 0 ELSE Len(Head(r)) + RetLen(Tail(r))

\* a call during which the caller's file object raised: the injected exception came out (exc = "injected" is
\* logged only for the very exception object the file object raised, or one chained to it), nothing was
\* returned, and tell() is where AFault says (one-step calls: unchanged; readlines / list(): behind k lines)
TFault(e) == /\ e.m \in 1..Len(mem)
             /\ e.exc = "injected"
             /\ e.ret = <<>>
             /\ \E k \in 0..Len(BLineSpans(D(e.m), pos[e.m])) : AFault(e.m, e.kind, k)
             /\ e.tell = pos'[e.m]
\* a reading call during which the file object returned short: the chunks returned are, put together, exactly
\* the member's next bytes and tell() is behind them
TShort(e) == /\ e.m \in 1..Len(mem)
             /\ e.exc = ""
             /\ AShort(e.m, RetLen(e.ret))
             /\ Cat(e.ret) = RBytes(aret', D(e.m))[1]
             /\ e.tell = pos'[e.m]
\* ArFile(fileobj=f) failed with the exception f raised: no archive object, nothing happened
TOpenFault(e) == e.exc = "injected" /\ AOpenFault

\* [op |-> "names", names, exc]: getnames() asked again in the middle of a history, after the harness edited the
\* lists handed out before ([op |-> "edit"]: no action of the archive): still every member's name, in order
TNames(e) == /\ ANames
             /\ e.exc = ""
             /\ e.names = [k \in 1..Len(mem) |-> mem[aret'.v[1][k]].name]
TEdit(e) == ACallerEdits

TStep == /\ l <= Len(Tr.events)
         /\ LET e == Tr.events[l] IN
              CASE e.op = "open" -> TOpen(e)
                [] e.op = "openfault" -> TOpenFault(e)
                [] e.op = "fault" -> TFault(e)
                [] e.op = "short" -> TShort(e)
                [] e.op = "names" -> TNames(e)
                [] e.op = "edit" -> TEdit(e)
                [] OTHER -> TCall(e)
         /\ l' = l + 1 /\ UNCHANGED tid
         /\ (Diag => PrintT(<<"AT", tid, l>>))
         /\ (l' = Len(Tr.events) + 1 => PrintT(<<"ACCEPTED", tid>>))

TSpec == TInit /\ [][TStep]_<<rvars, tid, l>>
\* positions never become negative along an observed execution
TPosOK == \A m \in 1..Len(mem) : pos[m] >= 0
=============================================================================
