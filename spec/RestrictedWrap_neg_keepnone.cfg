CONSTANTS
  Which = {"hdrA"}
  MaxLen = 2
  FSub = FALSE
  FInx = FALSE
  FShared = FALSE
  FKeepNone = TRUE
  Emit = FALSE
SPECIFICATION RSpec
INVARIANT ParasOK
INVARIANT ConvLaw
PROPERTY ErrAtomic
PROPERTY QueriesPure
PROPERTY Frame
PROPERTY KeepsPlace
PROPERTY RestrictedOnlyViaAttr
PROPERTY UnrestrictedLikeDeb822
PROPERTY ReadBack
PROPERTY SetNoneDeletes
PROPERTY NoneRefused
PROPERTY ContainsAgrees
VIEW RView
