\* C03 quick: pairs of complete versions [epoch:]upstream[-revision]: epoch absent/0/1/01,
\* revision absent/0/1/~, upstream <= 2 characters over 0 1 a ~ plus ':' and '-' where D2 allows
\* them (578 versions, 334 084 pairs)
CONSTANTS
  HashOnString = FALSE
  TildeOrderZero = FALSE
  Epochs <- E_few
  Revs <- R_few
  UpChars = {48, 49, 97, 126}
  MaxUp = 2
  Seps = TRUE
  Triples = FALSE
  EmitStride = 0
  EmitOffset = 0
SPECIFICATION Spec
INVARIANT Agree
INVARIANT SplitAgree
INVARIANT Antisym
INVARIANT Trichotomy
INVARIANT Reflexive
INVARIANT HashConsistent
INVARIANT HashImpl
CHECK_DEADLOCK FALSE
