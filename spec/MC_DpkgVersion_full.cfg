\* C03 quick: pairs of complete versions [epoch:]upstream[-revision]: epoch absent/0/1/01,
\* revision absent/0/~, upstream <= 2 characters over 0 1 plus ':' and '-' where D2 allows
\* them (186 versions, 34 596 pairs)
CONSTANTS
  HashOnString = FALSE
  TildeOrderZero = FALSE
  Epochs <- E_few
  Revs <- R_three
  UpChars = {48, 49}
  MaxUp = 2
  Seps = TRUE
  Triples = FALSE
  EmitStride = 0
  EmitOffset = 0
  CheckPos = FALSE
SPECIFICATION Spec
INVARIANT Agree
INVARIANT SplitAgree
INVARIANT Antisym
INVARIANT Trichotomy
INVARIANT Reflexive
INVARIANT HashConsistent
INVARIANT HashImpl
CHECK_DEADLOCK FALSE
