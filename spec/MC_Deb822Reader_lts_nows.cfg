CONSTANTS
  WsSeparates = FALSE
  NoText = 0
  TrimFirst = TRUE
  CommentEndsValue = FALSE
  LeadingBlankSkipped = TRUE
  ArmorHeadersSkipped = TRUE
  GpgMvLeadOK = TRUE
  Keys = {1, 2}
  MaxPara = 0
  MaxFields = 0
  MaxCont = 0
  MaxTotal = 0
  ShapeMode = 0
  ArmorHdrs = {1}
  SigBools = {TRUE, FALSE}
  BigSel = {}
  ArmorMaxFields = 3
  Emit = TRUE
SPECIFICATION LSpec
VIEW LView
INVARIANT Totality
INVARIANT BranchAgrees
INVARIANT EofRule
INVARIANT PayloadClean
INVARIANT NoEmptyDone
PROPERTY StoppedAbsorbing
PROPERTY DoneGrows
CHECK_DEADLOCK FALSE
