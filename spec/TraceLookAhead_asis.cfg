CONSTANTS
  NC = 8
  Chunk = 5
  Scripts = {}
  ArgK = {}
  Lims = {}
  Preds = {}
  MaxGens = 0
  Latch = FALSE
  UseClosed = TRUE
  Bug = "none"
  Emit = FALSE
SPECIFICATION TSpec
INVARIANT TInv
CHECK_DEADLOCK FALSE
