--------------------------- MODULE ReproTokenizer ---------------------------
(***************************************************************************)
(* C01 -- the format-preserving deb822 parser (debian._deb822_repro) is    *)
(* lossless: tokenize_deb822_file assigns every character of every input   *)
(* line to exactly one token, in order, and the element builders of        *)
(* parse_deb822_file only group tokens.                                    *)
(*                                                                         *)
(* The input is a sequence of LINES.  A line is abstracted to its class    *)
(*    E     empty                        W   whitespace-only               *)
(*    H     comment (#...)               C   starts with space/tab and has *)
(*    X     anything else (garbage)          content (continuation shape)  *)
(*    F1 F1b F1a F1ba   field with a value, optional whitespace before (b) *)
(*                      / after (a) the value                              *)
(*    F0 F0s            field without a value, optional whitespace         *)
(* plus a termination flag nl (the line ends in a newline), and the        *)
(* document has an input mode: "T" every line is terminated except possibly*)
(* the last (an unterminated EMPTY last line is not a line: outside the    *)
(* domain), "N" (two or more lines) no line is terminated and the parser   *)
(* supplies the newlines.  A line is a sequence of SEGMENTS <<ln, kind>>   *)
(* (name, colon, pre, value, post, nl ...) with identities, so that        *)
(* losslessness is "every input segment lands in exactly one token, in     *)
(* order".                                                                 *)
(*                                                                         *)
(* Layer 1, tokenizer: one action per branch of the loop of                *)
(* tokenize_deb822_file -- TokBlank TokComment TokContinuation             *)
(* TokStrayIndent TokField TokGarbage.  Control state: fld (a field is     *)
(* open, so a continuation line is legal), wsOpen (the previous token is a *)
(* whitespace token that still absorbs whitespace lines).                  *)
(* Layer 2, element builders (_combine_comment_tokens_into_elements,       *)
(* _build_value_line, _combine_vl_elements_into_value_elements,            *)
(* _build_field_with_value, _combine_kvp_elements_into_paragraphs,         *)
(* _combine_error_tokens_into_elements) as one automaton over the token    *)
(* groups: control state `last` (what the last top-level element is: "kv"  *)
(* a field whose value still takes continuation lines, "fv" a free-floating*)
(* value element, "err" an error element, "brk" anything that ends runs)   *)
(* and the pending comment (its fate -- field comment, value-line comment, *)
(* free-floating -- is decided by the next token).                         *)
(*                                                                         *)
(* History variables (lines, toks, parts, pendToks) carry the consumed     *)
(* input and the produced output.  Configurations:                         *)
(*   MC_ReproTokenizer_lts   VIEW = control state: closed (documents of    *)
(*        any length); OneBranch (totality + determinism) and the control  *)
(*        invariants; emits the LTS as EDGE lines.                         *)
(*   MC_ReproTokenizer_bnd*  every document of <= MaxLines lines over      *)
(*        Classes (and of <= NarrowMaxLines lines over NarrowClasses)      *)
(*        x termination x mode: Lossless, TokenShape, TokenLocal,          *)
(*        PartsLossless, ParaShape; emits one CASE line per document with  *)
(*        the expected output (segment order) and the predicted token      *)
(*        kinds / part list for the replay into the real parser.           *)
(* Spec-level negative controls (each tried; c01.py re-runs them):         *)
(*   MergeUnterminatedWs = TRUE  the code before fix a57dfe0: a            *)
(*        whitespace-only line is merged into the preceding whitespace     *)
(*        token as it is, terminated or not (in mode N: without the        *)
(*        supplied newline)       -> TokenShape violated (= the ValueError *)
(*        "Tokens containing whitespace must end on a newline")            *)
(*   DropFloatingComment = TRUE  a comment that is followed neither by a   *)
(*        field nor by a continuation line is not emitted                  *)
(*                                -> PartsLossless violated                *)
(***************************************************************************)
EXTENDS Naturals, Sequences, FiniteSets, TLC, Json

CONSTANTS Classes,               \* input alphabet (subset of AllClasses)
          MaxLines,              \* bound on the number of lines (0: unbounded, use with VIEW)
          NarrowClasses,         \* documents whose lines are all in NarrowClasses may be longer:
          NarrowMaxLines,        \* up to NarrowMaxLines lines (0: no such documents)
          Emit,                  \* "none" | "edge" | "case"
          MergeUnterminatedWs,   \* negative control
          DropFloatingComment    \* negative control

VARIABLES mode,      \* "T" | "N"
          ended,     \* an unterminated line was consumed in mode T: no more input
          fld,       \* a field is open
          wsOpen,    \* the last token is a whitespace token ending in a newline
          last,      \* builder: "brk" | "kv" | "fv" | "err"
          lines,     \* history: consumed lines [c, nl]
          toks,      \* history: tokens [k, segs]
          parts,     \* history: top-level parts [k, toks, fields] (token indices)
          pendToks   \* token indices of the pending comment (<<>>: none)

ctl  == <<mode, ended, fld, wsOpen, last>>
hist == <<lines, toks, parts, pendToks>>
vars == <<ctl, hist>>

AllClasses == {"E", "W", "H", "C", "F1", "F1b", "F1a", "F1ba", "F0", "F0s", "X"}
F1s        == {"F1", "F1b", "F1a", "F1ba"}
Fields     == F1s \cup {"F0", "F0s"}
HasPre(c)  == c \in {"F1b", "F1ba"}
HasPost(c) == c \in {"F1a", "F1ba"}
Branches   == {"TokBlank", "TokComment", "TokContinuation", "TokStrayIndent", "TokField", "TokGarbage"}

ASSUME Classes \subseteq AllClasses /\ NarrowClasses \subseteq Classes

----------------------------------------------------------------------------
\* pure operators (re-used by TraceReproTokenizer)

Opt(b, x) == IF b THEN <<x>> ELSE <<>>

\* the segments of a line without its newline
RawSegs(c) ==
   CASE c = "E"   -> <<>>
     [] c = "W"   -> <<"ws">>
     [] c = "H"   -> <<"cmt">>
     [] c = "C"   -> <<"lead", "body">>
     [] c = "X"   -> <<"junk">>
     [] c = "F0"  -> <<"name", "colon">>
     [] c = "F0s" -> <<"name", "colon", "sp">>
     [] c \in F1s -> <<"name", "colon">> \o Opt(HasPre(c), "pre") \o <<"value">> \o Opt(HasPost(c), "post")

Tag(i, ss) == [j \in 1..Len(ss) |-> <<i, ss[j]>>]
NlS(enl)   == Opt(enl, "nl")
\* segments of line i as the tokenizer sees it: enl = the line ends in a newline, its own (mode T)
\* or the one the tokenizer supplies (mode N)
LineSegs(i, c, enl) == Tag(i, RawSegs(c) \o NlS(enl))

Tok(k, i, ss) == [k |-> k, segs |-> Tag(i, ss)]
NlTok(i, enl) == Opt(enl, Tok("nl", i, <<"nl">>))

\* which branch of the tokenizer loop takes a line of class c when fldOpen
Guard(b, c, fldOpen) ==
   CASE b = "TokBlank"        -> c \in {"E", "W"}
     [] b = "TokComment"      -> c = "H"
     [] b = "TokContinuation" -> c = "C" /\ fldOpen
     [] b = "TokStrayIndent"  -> c = "C" /\ ~fldOpen
     [] b = "TokField"        -> c \in Fields
     [] b = "TokGarbage"      -> c = "X"

\* the tokens a non-blank line contributes
LineToks(b, c, i, enl) ==
   CASE b = "TokComment"      -> <<Tok("comment", i, <<"cmt">> \o NlS(enl))>>
     [] b = "TokContinuation" -> <<Tok("cont", i, <<"lead">>), Tok("value", i, <<"body">>)>> \o NlTok(i, enl)
     [] b = "TokStrayIndent"  -> <<Tok("error", i, <<"lead", "body">> \o NlS(enl))>>
     [] b = "TokGarbage"      -> <<Tok("error", i, <<"junk">> \o NlS(enl))>>
     [] b = "TokField"        ->
          <<Tok("name", i, <<"name">>), Tok("sep", i, <<"colon">>)>>
          \o (IF c \in F1s
              THEN Opt(HasPre(c), Tok("ws", i, <<"pre">>)) \o <<Tok("value", i, <<"value">>)>>
                   \o Opt(HasPost(c), Tok("ws", i, <<"post">>))
              ELSE Opt(c = "F0s", Tok("ws", i, <<"sp">>)))
          \o NlTok(i, enl)

\* ---- element builders: P = [parts, pendToks, last]
Part(k, t, f) == [k |-> k, toks |-> t, fields |-> f]
ExtendLast(ps, t) == [ps EXCEPT ![Len(ps)].toks = @ \o t]
AddField(ps, t) ==
   LET p == ps[Len(ps)] IN [ps EXCEPT ![Len(ps)] = Part(p.k, p.toks \o t, Append(p.fields, t))]
ExtendLastField(ps, t) ==
   LET p == ps[Len(ps)]
       f == p.fields
   IN [ps EXCEPT ![Len(ps)] = Part(p.k, p.toks \o t, [f EXCEPT ![Len(f)] = @ \o t])]

\* the pending comment is followed by something that is neither a field name nor a continuation
\* token: it becomes a free-floating comment element
Flush(P) ==
   IF P.pendToks = <<>> THEN P
   ELSE [parts    |-> IF DropFloatingComment THEN P.parts
                      ELSE Append(P.parts, Part("comment", P.pendToks, <<>>)),
         pendToks |-> <<>>,
         last     |-> "brk"]

\* ix = indices of the new tokens
BuildWs(P, ix) ==
   LET Q == Flush(P) IN [Q EXCEPT !.parts = Append(@, Part("ws", ix, <<>>)), !.last = "brk"]
BuildComment(P, ix) == [P EXCEPT !.pendToks = @ \o ix]
\* name, separator, value line -> key/value pair (with the pending comment); joins the
\* paragraph when the previous top-level element is a paragraph
BuildField(P, ix) ==
   LET t == P.pendToks \o ix IN
   [parts    |-> IF P.last = "kv" THEN AddField(P.parts, t) ELSE Append(P.parts, Part("para", t, <<t>>)),
    pendToks |-> <<>>,
    last     |-> "kv"]
\* continuation token -> value line (with the pending comment); extends the run of value lines
\* before it, otherwise it is a value element of its own at top level
BuildCont(P, ix) ==
   LET t == P.pendToks \o ix IN
   [parts    |-> CASE P.last = "kv" -> ExtendLastField(P.parts, t)
                   [] P.last = "fv" -> ExtendLast(P.parts, t)
                   [] OTHER         -> Append(P.parts, Part("value", t, <<>>)),
    pendToks |-> <<>>,
    last     |-> IF P.last = "kv" THEN "kv" ELSE "fv"]
BuildError(P, ix) ==
   LET Q == Flush(P) IN
   [Q EXCEPT !.parts = IF Q.last = "err" THEN ExtendLast(@, ix) ELSE Append(@, Part("error", ix, <<>>)),
             !.last = "err"]
Build(b, P, ix) ==
   CASE b = "TokComment"      -> BuildComment(P, ix)
     [] b = "TokContinuation" -> BuildCont(P, ix)
     [] b = "TokField"        -> BuildField(P, ix)
     [] b \in {"TokStrayIndent", "TokGarbage"} -> BuildError(P, ix)

\* end of input: a still pending comment is free-floating
FinalParts(P) == Flush(P).parts

RECURSIVE FlatFrom(_, _)
FlatFrom(ss, i) == IF i > Len(ss) THEN <<>> ELSE ss[i] \o FlatFrom(ss, i + 1)
Flat(ss) == FlatFrom(ss, 1)

----------------------------------------------------------------------------
P0   == [parts |-> parts, pendToks |-> pendToks, last |-> last]
NewIx(k) == [j \in 1..k |-> Len(toks) + j]
Idx  == Len(lines) + 1
CtlRec == [mode |-> mode, n |-> IF Len(lines) < 2 THEN Len(lines) ELSE 2, ended |-> ended, fld |-> fld,
           wsOpen |-> wsOpen, last |-> last, pend |-> pendToks # <<>>]
CtlRecNext == [mode |-> mode', n |-> IF Len(lines') < 2 THEN Len(lines') ELSE 2, ended |-> ended',
               fld |-> fld', wsOpen |-> wsOpen', last |-> last', pend |-> pendToks' # <<>>]
KindsOf(ts) == [j \in 1..Len(ts) |-> ts[j].k]
Edge(b, c, nl, out) ==
   Emit = "edge" => PrintT(<<"EDGE", ToJson([from |-> CtlRec, op |-> b, args |-> <<c, nl>>,
                                            segs |-> RawSegs(c) \o NlS(nl), out |-> out, to |-> CtlRecNext])>>)

Init == /\ mode \in {"T", "N"}
        /\ ended = FALSE /\ fld = FALSE /\ wsOpen = FALSE /\ last = "brk"
        /\ lines = <<>> /\ toks = <<>> /\ parts = <<>> /\ pendToks = <<>>

\* the input protocol = the domain of the property
Accepts(c, nl) == /\ ~ended
                  /\ IF mode = "N" THEN ~nl ELSE (nl \/ c # "E")
                  /\ \/ MaxLines = 0
                     \/ Len(lines) < MaxLines
                     \/ /\ Len(lines) < NarrowMaxLines /\ c \in NarrowClasses
                        /\ \A i \in 1..Len(lines) : lines[i].c \in NarrowClasses
Enl(nl) == nl \/ mode = "N"

Consume(c, nl) == /\ lines' = Append(lines, [c |-> c, nl |-> nl])
                  /\ ended' = (mode = "T" /\ ~nl)
                  /\ mode' = mode

\* a non-blank line: its tokens are appended, the builders take the group
Plain(b, c, nl) ==
   /\ Accepts(c, nl) /\ Guard(b, c, fld)
   /\ LET new == LineToks(b, c, Idx, Enl(nl))
          Q   == Build(b, P0, NewIx(Len(new)))
      IN /\ toks' = toks \o new
         /\ parts' = Q.parts /\ pendToks' = Q.pendToks /\ last' = Q.last
   /\ wsOpen' = FALSE
   /\ Consume(c, nl)

\* whitespace-only and empty lines end the field; consecutive ones are combined into one token as
\* long as the result still ends in a newline (the tokenizer looks ahead; here: the previous
\* whitespace token absorbs the line).  An unterminated whitespace-only line (necessarily the last)
\* gets a token of its own; in mode N the look-ahead test is applied to the raw line, so an empty
\* line is never absorbed.
Absorbs(c, nl) ==
   wsOpen /\ IF MergeUnterminatedWs THEN (mode = "N" => c = "W")
             ELSE IF mode = "N" THEN c = "W" ELSE nl
TokBlank(c, nl) ==
   /\ Accepts(c, nl) /\ Guard("TokBlank", c, fld)
   /\ IF Absorbs(c, nl)
      THEN /\ toks' = [toks EXCEPT ![Len(toks)].segs =
                          @ \o LineSegs(Idx, c, IF MergeUnterminatedWs THEN nl ELSE Enl(nl))]
           /\ UNCHANGED <<parts, pendToks, last>>
      ELSE /\ toks' = Append(toks, [k |-> "ws", segs |-> LineSegs(Idx, c, Enl(nl))])
           /\ LET Q == BuildWs(P0, NewIx(1))
              IN parts' = Q.parts /\ pendToks' = Q.pendToks /\ last' = Q.last
   /\ fld' = FALSE
   /\ wsOpen' = (Enl(nl) \/ (MergeUnterminatedWs /\ wsOpen))
   /\ Consume(c, nl)
   /\ Edge("TokBlank", c, nl, IF Absorbs(c, nl) THEN <<"+ws">> ELSE <<"ws">>)

TokComment(c, nl)      == Plain("TokComment", c, nl) /\ fld' = fld
                          /\ Edge("TokComment", c, nl, KindsOf(LineToks("TokComment", c, Idx, Enl(nl))))
TokContinuation(c, nl) == Plain("TokContinuation", c, nl) /\ fld' = fld
                          /\ Edge("TokContinuation", c, nl, KindsOf(LineToks("TokContinuation", c, Idx, Enl(nl))))
TokStrayIndent(c, nl)  == Plain("TokStrayIndent", c, nl) /\ fld' = fld
                          /\ Edge("TokStrayIndent", c, nl, KindsOf(LineToks("TokStrayIndent", c, Idx, Enl(nl))))
TokField(c, nl)        == Plain("TokField", c, nl) /\ fld' = TRUE
                          /\ Edge("TokField", c, nl, KindsOf(LineToks("TokField", c, Idx, Enl(nl))))
\* an error token for a garbage line leaves the field open (as the code does)
TokGarbage(c, nl)      == Plain("TokGarbage", c, nl) /\ fld' = fld
                          /\ Edge("TokGarbage", c, nl, KindsOf(LineToks("TokGarbage", c, Idx, Enl(nl))))

Step(c, nl) == \/ TokBlank(c, nl) \/ TokComment(c, nl) \/ TokContinuation(c, nl)
               \/ TokStrayIndent(c, nl) \/ TokField(c, nl) \/ TokGarbage(c, nl)
Next == \E c \in Classes, nl \in BOOLEAN : Step(c, nl)
Spec == Init /\ [][Next]_vars

CtlView == CtlRec

----------------------------------------------------------------------------
\* invariants

TypeOK == /\ mode \in {"T", "N"} /\ ended \in BOOLEAN /\ fld \in BOOLEAN /\ wsOpen \in BOOLEAN
          /\ last \in {"brk", "kv", "fv", "err"}
          /\ \A i \in 1..Len(lines) : lines[i].c \in Classes /\ lines[i].nl \in BOOLEAN

\* totality and determinism of the tokenizer: in every state every class is taken by exactly one branch
OneBranch == \A c \in AllClasses : Cardinality({b \in Branches : Guard(b, c, fld)}) = 1

\* relations between the control variables the builder layer relies on
CtlConsistent ==
   /\ fld => last \in {"kv", "fv", "err"}            \* a continuation token never follows a "brk"
   /\ wsOpen => (~fld /\ last = "brk" /\ pendToks = <<>> /\ Len(toks) > 0 /\ toks[Len(toks)].k = "ws")
   /\ last \in {"kv", "fv", "err"} => Len(parts) > 0
   /\ last = "kv"  => parts[Len(parts)].k = "para"
   /\ last = "fv"  => parts[Len(parts)].k = "value"
   /\ last = "err" => (pendToks = <<>> => parts[Len(parts)].k = "error")

\* the document consumed so far obeys the input protocol (= is in the domain of C01)
InDomain ==
   /\ \A i \in 1..Len(lines) : IF mode = "N" THEN ~lines[i].nl
                               ELSE (i < Len(lines) => lines[i].nl) /\ (lines[i].nl \/ lines[i].c # "E")
   /\ ended <=> (mode = "T" /\ Len(lines) > 0 /\ ~lines[Len(lines)].nl)

InputSegs == Flat([i \in 1..Len(lines) |-> LineSegs(i, lines[i].c, lines[i].nl \/ mode = "N")])
TokenSegs == Flat([j \in 1..Len(toks) |-> toks[j].segs])

\* every input segment (in mode N: every line followed by a supplied newline) lands in exactly
\* one token, in order
Lossless == TokenSegs = InputSegs

\* the rule the token constructors enforce (Deb822Token._verify_token_text, "Tokens must have
\* content"): a token that contains a newline ends with one; only whitespace tokens may contain
\* several; name / separator / value / continuation tokens contain none
NlPos(s) == {p \in 1..Len(s) : s[p][2] = "nl"}
TokenShape ==
   \A j \in 1..Len(toks) :
      LET s == toks[j].segs IN
      /\ Len(s) > 0
      /\ NlPos(s) # {} => /\ Len(s) \in NlPos(s)
                          /\ toks[j].k \in {"ws", "nl", "comment", "error"}
                          /\ (toks[j].k # "ws" => Cardinality(NlPos(s)) = 1)
\* tokens never straddle lines, except the whitespace token made of whole lines
TokenLocal ==
   \A j \in 1..Len(toks) :
      LET s == toks[j].segs IN
      \/ \A p \in 1..Len(s) : s[p][1] = s[1][1]
      \/ /\ toks[j].k = "ws"
         /\ \A p \in 1..Len(s) : s[p][2] \in {"ws", "nl"}
         /\ \A p \in 1..(Len(s) - 1) : s[p][1] # s[p + 1][1] => s[p][2] = "nl"

\* flattening the part tree gives back the token sequence: the builders only group
PartsLossless ==
   LET fp == FinalParts(P0) IN
   /\ Flat([i \in 1..Len(fp) |-> fp[i].toks]) = [j \in 1..Len(toks) |-> j]
   /\ \A i \in 1..Len(fp) : fp[i].k = "para" => Flat(fp[i].fields) = fp[i].toks
\* what the element constructors require: a paragraph has fields, every field starts (after its
\* comment) with name and separator, top-level whitespace parts are single whitespace tokens
ParaShape ==
   LET fp == FinalParts(P0) IN
   \A i \in 1..Len(fp) :
      /\ fp[i].toks # <<>>
      /\ fp[i].k = "para" =>
            /\ fp[i].fields # <<>>
            /\ \A f \in 1..Len(fp[i].fields) :
                  LET t == fp[i].fields[f]
                  IN \E nc \in 0..Len(t) :
                        /\ \A p \in 1..nc : toks[t[p]].k = "comment"
                        /\ Len(t) >= nc + 2 /\ toks[t[nc + 1]].k = "name" /\ toks[t[nc + 2]].k = "sep"
      /\ fp[i].k = "ws"      => Len(fp[i].toks) = 1 /\ toks[fp[i].toks[1]].k = "ws"
      /\ fp[i].k = "comment" => \A p \in 1..Len(fp[i].toks) : toks[fp[i].toks[p]].k = "comment"
      /\ fp[i].k = "error"   => \A p \in 1..Len(fp[i].toks) : toks[fp[i].toks[p]].k = "error"
      /\ fp[i].k = "value"   => toks[fp[i].toks[1]].k \in {"comment", "cont"}

----------------------------------------------------------------------------
\* CASE emission (compact integer codes; decoded by harness/props/c01.py)
SegCode(s) == CASE s = "nl" -> 0 [] s = "ws" -> 1 [] s = "cmt" -> 2 [] s = "lead" -> 3 [] s = "body" -> 4
                [] s = "junk" -> 5 [] s = "name" -> 6 [] s = "colon" -> 7 [] s = "pre" -> 8
                [] s = "value" -> 9 [] s = "post" -> 10 [] s = "sp" -> 11
KindCode(k) == CASE k = "ws" -> 0 [] k = "nl" -> 1 [] k = "comment" -> 2 [] k = "cont" -> 3 [] k = "value" -> 4
                 [] k = "error" -> 5 [] k = "name" -> 6 [] k = "sep" -> 7
PartCode(k) == CASE k = "ws" -> 0 [] k = "comment" -> 1 [] k = "para" -> 2 [] k = "error" -> 3 [] k = "value" -> 4
PartsView(fp) == [i \in 1..Len(fp) |->
                    <<PartCode(fp[i].k), Len(fp[i].toks), [f \in 1..Len(fp[i].fields) |-> Len(fp[i].fields[f])]>>]
CaseRec ==
   LET ts == TokenSegs
       fp == FinalParts(P0)
   IN [m   |-> mode,
       ls  |-> [i \in 1..Len(lines) |-> lines[i].c],
       t   |-> [i \in 1..Len(lines) |-> IF lines[i].nl THEN 1 ELSE 0],
       out |-> [p \in 1..Len(ts) |-> ts[p][1] * 16 + SegCode(ts[p][2])],   \* the expected output
       k   |-> [j \in 1..Len(toks) |-> KindCode(toks[j].k)],
       p   |-> PartsView(fp)]
\* a complete document: in mode N only with two or more lines
Complete == mode = "N" => Len(lines) >= 2
EmitCase == (Emit = "case" /\ Complete) => PrintT(<<"CASE", ToJson(CaseRec)>>)
=============================================================================
