CONSTANTS
  Modes = {"cm"}
  MaxW = 2
  MaxT = 10
  MaxC = 2
  Dups = FALSE
  MaxEdits = 1
  Edits = FALSE
  KindSel = "some"
  MinVals = 0
  AllPerms = FALSE
  Emit = FALSE
  SliceK = 1
  SliceR = 0
  DefectTrailComma = TRUE
  DefectHiddenSep = TRUE
  Exempt = FALSE
  SortDropsComments = FALSE
  SepAlways = FALSE
  NoNlBeforeCmt = FALSE
  FmtNoTrailSep = FALSE
SPECIFICATION Spec
INVARIANT WriteBack
CHECK_DEADLOCK FALSE
