CONSTANTS
  NC = 8
  Chunk = 5
  Classes = {0, 1}
  Scripts <- MCScripts
  ShortLen = 1
  LongLens = {6, 11}
  LongErr = TRUE
  ArgK = {1, 3}
  Lims <- LimsNone
  Preds <- PredsTwo
  MaxGens = 0
  Latch = TRUE
  UseClosed = FALSE
  Bug = "none"
  Emit = FALSE
SPECIFICATION ISpec
INVARIANT ClosedOK
VIEW IView
