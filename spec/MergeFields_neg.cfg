CONSTANTS
  Ids = {1, 2}
  Objs = {"p", "q"}
  Moves = TRUE
  Shapes = TRUE
  Defects = {}
  NoSort = FALSE
  Emit = FALSE
SPECIFICATION Spec
VIEW MView
INVARIANT TypeOK
INVARIANT AllWellFormed
INVARIANT Determinate
INVARIANT ImplRefines
INVARIANT DefectScope
INVARIANT LawIdempotent
INVARIANT LawCommutative
PROPERTY ResWellFormed
PROPERTY Monotone
PROPERTY Bystanders
PROPERTY InPlace
CHECK_DEADLOCK FALSE
