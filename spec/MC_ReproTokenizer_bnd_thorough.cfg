CONSTANTS
  Classes = {"E", "W", "H", "C", "F1", "F1b", "F1a", "F1ba", "F0", "F0s", "X"}
  MaxLines = 4
  NarrowClasses = {"E", "W", "H", "C", "F1", "F1ba", "F0s", "X"}
  NarrowMaxLines = 5
  Emit = "case"
  MergeUnterminatedWs = FALSE
  DropFloatingComment = FALSE
SPECIFICATION Spec
INVARIANT TypeOK
INVARIANT OneBranch
INVARIANT CtlConsistent
INVARIANT InDomain
INVARIANT Lossless
INVARIANT TokenShape
INVARIANT TokenLocal
INVARIANT PartsLossless
INVARIANT ParaShape
INVARIANT EmitCase
CHECK_DEADLOCK FALSE
