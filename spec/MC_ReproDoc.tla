---------------------------- MODULE MC_ReproDoc ----------------------------
(* start documents for the closed configurations of ReproDoc (C05 / C10) *)
EXTENDS ReproDoc
F(n, s, v, c) == [n |-> n, s |-> s, v |-> v, c |-> c]
\* one paragraph, unique fields; field 2 carries a comment
DocA == <<MkPara(FALSE, <<F(1, "U", 1, 0), F(2, "L", 2, 2), F(3, "U", 3, 0)>>)>>
\* field 1 duplicated (both with comments), parsed by the duplicate-tolerant class
DocB == <<MkPara(TRUE, <<F(1, "U", 1, 1), F(2, "U", 2, 0), F(1, "L", 3, 3)>>)>>
\* two duplicated names interleaved
DocC == <<MkPara(TRUE, <<F(1, "U", 1, 0), F(2, "U", 2, 2), F(1, "L", 3, 0), F(2, "L", 4, 0)>>)>>
\* two paragraphs with free-floating comments around them; the second has duplicates
DocD == <<MkSep(1), MkPara(FALSE, <<F(1, "U", 1, 0), F(2, "U", 2, 0)>>), MkSep(2),
          MkPara(TRUE, <<F(2, "U", 3, 0), F(3, "L", 4, 4), F(2, "L", 5, 0)>>), MkSep(3)>>
DocE == <<>>
\* smaller start documents for the quick tier
DocA2 == <<MkPara(FALSE, <<F(1, "U", 1, 0), F(2, "L", 2, 2)>>)>>
\* document-level shapes: separators before/between/after, with and without a trailing separator
P1 == MkPara(FALSE, <<F(1, "U", 1, 0)>>)
P2 == MkPara(FALSE, <<F(2, "U", 2, 2)>>)
StartDocLevel == {<<>>, <<P1>>, <<P1, MkSep(1)>>, <<MkSep(1), P1>>, <<MkSep(1), P1, MkSep(2), P2>>,
                  <<P1, MkSep(1), P2, MkSep(2)>>}
StartMixed == {<<MkPara(FALSE, <<F(1, "U", 1, 1), F(2, "U", 2, 0)>>)>>}
\* C05 (dict interface only): richer paragraphs, several of them
Frozen(fs) == [t |-> "p", dup |-> FALSE, fs |-> fs, id |-> 1]
\* the edited paragraph sits between two context paragraphs and free comments
DocF == <<MkSep(1), Frozen(<<F(1, "U", 7, 0), F(3, "U", 8, 8)>>), MkSep(2),
          MkPara(FALSE, <<F(1, "U", 1, 1), F(2, "L", 2, 0), F(3, "U", 3, 3)>>), MkSep(3),
          Frozen(<<F(2, "U", 9, 9)>>)>>
DocF2 == <<Frozen(<<F(1, "U", 7, 0)>>), MkSep(1),
           MkPara(TRUE, <<F(1, "L", 4, 4), F(2, "U", 5, 0), F(1, "U", 6, 6)>>)>>
StartF == {DocF}
StartF2 == {DocF2}
StartA2 == {DocA2}
StartA == {DocA}
StartB == {DocB}
StartC == {DocC}
StartD == {DocD}
StartE == {DocE, <<MkPara(FALSE, <<F(2, "U", 1, 1)>>)>>}
StartAll == {DocA, DocB, DocC, DocD, DocE}
\* negative control for SortByLaws (MC_ReproDoc_neg_sort.cfg): a sort whose ties fall back to some
\* other order than the current one - here the name order, which is what sorting a differently
\* ordered copy of the fields (parse order, insertion order of a lookup table) looks like after a
\* move - is NOT the documented sort; TLC must report NegSortByLaws violated
RSortPosTieByName(fs, kt) == RSortPosBy(fs, [n \in Names |-> 100 * RKeyOf(kt, n) + n])
NegSortByLaws == \A p \in 1..NParas : \A kt \in SortKeyTabs : SortLawsFor(RSortPosTieByName, Para(p).fs, kt)
\* C05, documents that track the final newline of every field (attribute nl): the edited paragraph
\* is the LAST one and the document has no final newline (last field: nl = FALSE, with its own
\* comment lines), so that histories of several adds and deletes (two names absent at the start)
\* pass through "newline supplied, the field that caused it deleted again while others follow"
FN(n, s, v, c, nl) == [n |-> n, s |-> s, v |-> v, c |-> c, nl |-> nl]
FrozenN(fs) == [t |-> "p", dup |-> FALSE, fs |-> fs, id |-> 1]
DocG  == <<FrozenN(<<FN(1, "U", 7, 0, TRUE), FN(3, "L", 8, 8, TRUE)>>), MkSep(1),
           MkPara(FALSE, <<FN(1, "U", 1, 1, FALSE)>>)>>
\* duplicated fields (the other paragraph class), last occurrence unterminated
DocG2 == <<FrozenN(<<FN(2, "U", 7, 7, TRUE)>>), MkSep(1),
           MkPara(TRUE, <<FN(1, "L", 4, 4, TRUE), FN(1, "U", 6, 6, FALSE)>>)>>
StartG  == {DocG}
StartG2 == {DocG2}
\* negative control (MC_ReproDoc_neg_nl.cfg, REnsureNl <- NegNoEnsure): an add that does not supply
\* the missing newline glues two fields; TLC must report DocWellFormed violated
NegNoEnsure(fs) == fs
\* negative control for refused document-level calls (MC_ReproDoc_neg_owned.cfg, RefusedLeaves <-
\* NegRefusedPreparesTail): an append / insert of an already owned paragraph that raises only AFTER
\* the separating newline was put behind the last paragraph; TLC must report ErrAtomic violated
NegRefusedPreparesTail(d) == IF d # <<>> /\ d[Len(d)].t = "p" THEN d \o <<MkSep(NewSep)>> ELSE d
\* negative control for ReplaceLaws (MC_ReproDoc_neg_cmt.cfg, NegReplaceLaws): an assignment that
\* rebuilds the replaced field without re-attaching its comment block is not a local edit; TLC must
\* report NegReplaceLaws violated
NegAssignDropsComment(fs, key, s, v) ==
   LET out == RAssign(fs, key, s, v)
       tgt == IF key.i = NoIdx THEN ROcc(fs, key.n)[1] ELSE ROcc(fs, key.n)[key.i + 1]
   IN IF RHas(fs, key.n) THEN [out EXCEPT ![tgt].c = 0] ELSE out
NegReplaceLaws == \A p \in 1..NParas : ReplaceLawsOf(NegAssignDropsComment, Para(p).fs)
=============================================================================
