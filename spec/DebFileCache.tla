---------------------------- MODULE DebFileCache ----------------------------
(***************************************************************************)
(* C07, history layer -- "returns the same contents and answers queries    *)
(* identically" must hold for every ORDER of queries, for repeated         *)
(* queries, for several packages open in the same process, for a path that *)
(* is rewritten and opened again, and when the caller mutates a returned   *)
(* dictionary.  DebFile.tla treats queries as stateless; here the query    *)
(* part is a small history over TWO open packages whose files have the     *)
(* same names but different contents, with the state an implementation     *)
(* may keep between calls made explicit:                                   *)
(*   tcache  the opened-tarball memo (DebPart.__tgz): key -> part content; *)
(*           the code keys it by object and part (an instance attribute),  *)
(*   ccache  a memo of get_content results (the code has none),            *)
(*   rmemo   memoised scripts()/md5sums()/debcontrol() results (the code   *)
(*           builds a fresh dictionary per call), `last` = the dictionary  *)
(*           the caller got last and may mutate (action Mutate).           *)
(* Reopen(o, np): the file of package o is rewritten with content np and   *)
(* opened again: a NEW object, so everything keyed by o is gone.           *)
(* The reference answer of a query is the stateless one of DebFile.tla     *)
(* (DHas / DGet / DScripts / DMd5 / DCtl on the package as it is now).     *)
(*                                                                         *)
(* Properties (MC_DebFileCache.cfg, closed): HistExact (every answer in    *)
(* every history = reference answer), CacheCoherent, RepeatStable.         *)
(* Negative controls, each makes TLC report HistExact violated:            *)
(*   CacheKeyedByNameOnly  tarball memo shared between DebFile objects,    *)
(*                         keyed by the part's member name                 *)
(*                         (MC_DebFileCache_neg_name.cfg; 2 steps: query   *)
(*                         control of package 1, then of package 2)        *)
(*   ContentCacheByFile    get_content memoised by file name only          *)
(*                         (MC_DebFileCache_neg_content.cfg)               *)
(*   ResultsAliased        the returned dictionary IS the memo: Mutate     *)
(*                         poisons the next answer                         *)
(*                         (MC_DebFileCache_neg_alias.cfg)                 *)
(* Output: with EmitH one HTAB line per (content generation of the two     *)
(* packages, query) = the expected answer; the harness drives random       *)
(* interleaved histories against two real open packages with it, and       *)
(* recorded two-package histories are validated by TraceDebFileCache.      *)
(***************************************************************************)
EXTENDS Naturals, Sequences, FiniteSets, TLC, Json

CONSTANTS CacheKeyedByNameOnly, ContentCacheByFile, ResultsAliased, EmitH

\* the stateless operators of DebFile.tla (its variables and configuration constants play no role here)
D == INSTANCE DebFile WITH Universe <- <<>>, MaxLen <- 0, AnyOrder <- TRUE, InitMatrix <- FALSE,
                           ScriptUniverse <- {}, FileNames <- {}, Blobs <- {},
                           Decompressors <- {"gz", "bz2", "xz", "lzma"},
                           AcceptFirstCandidate <- FALSE, InfoOptional <- FALSE, NormalizeSlash <- TRUE,
                           Emit <- FALSE, EmitProbe <- FALSE,
                           mem <- <<>>, dst <- "ok", pkg <- <<>>, prts <- <<>>, res <- <<>>

VARIABLES objs,     \* <<package 1, package 2>>, each [pkg |-> [c, d, m], prts |-> [ctrl, data]]
          gen,      \* closed model only: which of its two contents each path holds
          tcache,   \* set of [k |-> key, v |-> [f |-> file map, m |-> md5 map]]
          ccache,   \* set of [k |-> key, v |-> get result]
          rmemo,    \* set of [k |-> <<o, op>>, v |-> dictionary result]
          last,     \* <<o, op>> of the dictionary returned last, or <<>>
          hres      \* the last call and its answer (output only)

hvars == <<objs, gen, tcache, ccache, rmemo, last, hres>>
HView == <<objs, gen, tcache, ccache, rmemo, last>>

Objs     == {1, 2}
HParts   == {"control", "data"}
HNames   == {"f1", "f2", "control", "postinst", "absent"}
QueryOps == {"has", "get", "scripts", "md5sums", "debcontrol"}

\* the two contents of each path: same file names, different blobs; the rewrite also adds / drops files
Content(o, g) ==
    CASE o = 1 /\ g = 0 -> [c |-> [control |-> 1, md5sums |-> 2, postinst |-> 4],
                            d |-> [f1 |-> 11, f2 |-> 12], m |-> [f1 |-> 111]]
      [] o = 1 /\ g = 1 -> [c |-> [control |-> 41, md5sums |-> 42, postinst |-> 44, config |-> 47],
                            d |-> [f1 |-> 51], m |-> [f1 |-> 151]]
      [] o = 2 /\ g = 0 -> [c |-> [control |-> 21, md5sums |-> 22, postinst |-> 24],
                            d |-> [f1 |-> 31, f2 |-> 32], m |-> [f1 |-> 131, f2 |-> 132]]
      [] o = 2 /\ g = 1 -> [c |-> [control |-> 61, md5sums |-> 62],
                            d |-> [f1 |-> 71, f2 |-> 72], m |-> <<>>]
\* same control member name (a name-keyed memo collides), different data compression
PartsOf(o) == IF o = 1 THEN [ctrl |-> "control.tar.gz", data |-> "data.tar.xz"]
                       ELSE [ctrl |-> "control.tar.gz", data |-> "data.tar.bz2"]

----------------------------------------------------------------------------
PartContent(o, p) == [f |-> D!DMapOf(objs[o].pkg, p), m |-> objs[o].pkg.m]

\* DebPart.tgz(): open the tarball once, keep it
TKey(o, p)  == IF CacheKeyedByNameOnly THEN <<D!DNameOf(objs[o].prts, p)>> ELSE <<o, p>>
THit(o, p)  == {e \in tcache : e.k = TKey(o, p)}
TLook(o, p) == IF THit(o, p) = {} THEN PartContent(o, p) ELSE (CHOOSE e \in THit(o, p) : TRUE).v
TFill(o, p) == IF THit(o, p) = {} THEN tcache \cup {[k |-> TKey(o, p), v |-> PartContent(o, p)]} ELSE tcache

\* the answers, computed from the (possibly memoised) tarball exactly like DebFile!DHas / DGet / ...
AHas(o, p, path) == [err |-> "", found |-> D!DLookup(path) \in D!DTarNames(TLook(o, p).f)]
AGet(o, p, path) == LET fm == TLook(o, p).f  k == D!DLookup(path) IN
                    IF k \notin D!DTarNames(fm) THEN [err |-> "", found |-> FALSE, blob |-> 0]
                    ELSE [err |-> "", found |-> TRUE, blob |-> fm[k[3]]]
AScripts(o) == LET fm == TLook(o, "control").f IN
               [err |-> "", map |-> [s \in DOMAIN fm \cap D!MaintScripts |-> fm[s]]]
AMd5(o)     == LET pc == TLook(o, "control") IN
               IF D!Md5File \in DOMAIN pc.f THEN [err |-> "", map |-> pc.m] ELSE [err |-> "DebError", map |-> <<>>]
ACtl(o)     == LET fm == TLook(o, "control").f IN
               IF D!ControlFile \in DOMAIN fm THEN [err |-> "", blob |-> fm[D!ControlFile]] ELSE [err |-> "absent", blob |-> 0]

\* the reference: the stateless answer of DebFile.tla for the package as it is now
Ref(ob, o, op, args) ==
    LET pk == ob[o].pkg  pr == ob[o].prts IN
    CASE op = "has"        -> D!DHas(pk, pr, args[1], D!DSpell(args[2], args[3]))
      [] op = "get"        -> D!DGet(pk, pr, args[1], D!DSpell(args[2], args[3]))
      [] op = "scripts"    -> D!DScripts(pk, pr)
      [] op = "md5sums"    -> D!DMd5(pk, pr)
      [] op = "debcontrol" -> D!DCtl(pk, pr)

Poison(out) == IF "map" \in DOMAIN out
               THEN [out EXCEPT !.map = [x \in DOMAIN out.map \cup {"junk"} |-> IF x = "junk" THEN 0 ELSE out.map[x]]]
               ELSE [out EXCEPT !.blob = 0]

----------------------------------------------------------------------------
Tab(op, o, args, out) ==
    (EmitH /\ tcache = {} /\ last = <<>>) =>
        PrintT(<<"HTAB", ToJson([g |-> gen, o |-> o, op |-> op, args |-> args, out |-> out,
                                 pkg |-> objs[o].pkg, prts |-> objs[o].prts])>>)

Init == /\ gen = [o \in Objs |-> 0]
        /\ objs = [o \in Objs |-> [pkg |-> Content(o, 0), prts |-> PartsOf(o)]]
        /\ tcache = {} /\ ccache = {} /\ rmemo = {} /\ last = <<>>
        /\ hres = [op |-> "init"]

Answer(op, o, args, out) == /\ hres' = [op |-> op, o |-> o, args |-> args, out |-> out]
                            /\ Tab(op, o, args, out)

HasFile(o, p, sp, n) ==
    /\ Answer("has", o, <<p, sp, n>>, AHas(o, p, D!DSpell(sp, n)))
    /\ tcache' = TFill(o, p)
    /\ UNCHANGED <<objs, gen, ccache, rmemo, last>>

GetContent(o, p, sp, n) ==
    LET path == D!DSpell(sp, n)
        ck   == <<D!DNorm(path)>>
        hit  == {e \in ccache : e.k = ck}
        out  == IF ContentCacheByFile /\ hit # {} THEN (CHOOSE e \in hit : TRUE).v ELSE AGet(o, p, path)
    IN /\ Answer("get", o, <<p, sp, n>>, out)
       /\ tcache' = IF ContentCacheByFile /\ hit # {} THEN tcache ELSE TFill(o, p)
       /\ ccache' = IF ContentCacheByFile /\ hit = {} THEN ccache \cup {[k |-> ck, v |-> out]} ELSE ccache
       /\ UNCHANGED <<objs, gen, rmemo, last>>

DictCall(op, o, fresh) ==
    LET hit == {e \in rmemo : e.k = <<o, op>>}
        out == IF ResultsAliased /\ hit # {} THEN (CHOOSE e \in hit : TRUE).v ELSE fresh
    IN /\ Answer(op, o, <<>>, out)
       /\ tcache' = IF ResultsAliased /\ hit # {} THEN tcache ELSE TFill(o, "control")
       /\ rmemo' = IF ResultsAliased /\ hit = {} THEN rmemo \cup {[k |-> <<o, op>>, v |-> out]} ELSE rmemo
       /\ last' = <<o, op>>
       /\ UNCHANGED <<objs, gen, ccache>>

Scripts(o)    == DictCall("scripts", o, AScripts(o))
Md5sums(o)    == DictCall("md5sums", o, AMd5(o))
DebControl(o) == DictCall("debcontrol", o, ACtl(o))

\* the caller changes the dictionary it was handed last (if any; one that belonged to an object
\* since re-opened is nobody's business)
Mutate == /\ rmemo' = IF ResultsAliased /\ last # <<>>
                      THEN {IF e.k = last THEN [e EXCEPT !.v = Poison(e.v)] ELSE e : e \in rmemo}
                      ELSE rmemo
          /\ hres' = [op |-> "mutate"]
          /\ UNCHANGED <<objs, gen, tcache, ccache, last>>

\* the file of package o is rewritten (same member names) and opened again: a new object
Reopen(o, np) ==
    /\ objs' = [objs EXCEPT ![o].pkg = np]
    /\ tcache' = IF CacheKeyedByNameOnly THEN tcache ELSE {e \in tcache : e.k[1] # o}
    /\ rmemo' = {e \in rmemo : e.k[1] # o}
    /\ last' = IF last # <<>> /\ last[1] = o THEN <<>> ELSE last
    /\ hres' = [op |-> "reopen", o |-> o]
    /\ UNCHANGED ccache

Next == \/ \E o \in Objs :
            \/ \E p \in HParts, sp \in D!Spellings, n \in HNames : HasFile(o, p, sp, n) \/ GetContent(o, p, sp, n)
            \/ Scripts(o) \/ Md5sums(o) \/ DebControl(o)
            \/ Reopen(o, Content(o, 1 - gen[o])) /\ gen' = [gen EXCEPT ![o] = 1 - @]
        \/ Mutate

Spec == Init /\ [][Next]_hvars

----------------------------------------------------------------------------
\* every answer in every history is the stateless reference answer for the package as it is now
HistExact == [][hres'.op \in QueryOps => hres'.out = Ref(objs', hres'.o, hres'.op, hres'.args)]_hvars
\* asking again (nothing re-opened in between) gives the same answer
RepeatStable == [][(hres.op \in QueryOps /\ hres'.op = hres.op /\ hres'.o = hres.o /\ hres'.args = hres.args)
                      => hres'.out = hres.out]_hvars
\* the memo of the code (keyed by object and part) always holds the content of that object's part
CacheCoherent == (~CacheKeyedByNameOnly) => \A e \in tcache : e.v = PartContent(e.k[1], e.k[2])
NoOtherMemo   == (~ContentCacheByFile /\ ~ResultsAliased) => ccache = {} /\ rmemo = {}
=============================================================================
