---------------------------- MODULE DebFileCache ----------------------------
(***************************************************************************)
(* C07, history layer -- "returns the same contents and answers queries    *)
(* identically" must hold for every ORDER of queries, for repeated         *)
(* queries, for several packages open in the same process, for a path that *)
(* is rewritten and opened again, and when the caller mutates a returned   *)
(* dictionary.  DebFile.tla treats queries as stateless; here the query    *)
(* part is a small history over TWO open packages whose files have the     *)
(* same names but different contents, with the state an implementation     *)
(* may keep between calls made explicit:                                   *)
(*   tcache  the opened-tarball memo (DebPart.__tgz): key -> part content; *)
(*           the code keys it by object and part (an instance attribute),  *)
(*   ccache  a memo of get_content results (the code has none),            *)
(*   rmemo   memoised scripts()/md5sums()/debcontrol() results (the code   *)
(*           builds a fresh dictionary per call), `last` = the dictionary  *)
(*           the caller got last and may mutate (action Mutate).           *)
(* Reopen(o, np): the file of package o is rewritten with content np and   *)
(* opened again: a NEW object, so everything keyed by o is gone.           *)
(* The reference answer of a query is the stateless one of DebFile.tla     *)
(* (DHas / DGet / DScripts / DMd5 / DCtl on the package as it is now).     *)
(*                                                                         *)
(* Properties (MC_DebFileCache.cfg, closed): HistExact (every answer in    *)
(* every history = reference answer), CacheCoherent, RepeatStable.         *)
(* Negative controls, each makes TLC report HistExact violated:            *)
(*   CacheKeyedByNameOnly  tarball memo shared between DebFile objects,    *)
(*                         keyed by the part's member name                 *)
(*                         (MC_DebFileCache_neg_name.cfg; 2 steps: query   *)
(*                         control of package 1, then of package 2)        *)
(*   ContentCacheByFile    get_content memoised by file name only          *)
(*                         (MC_DebFileCache_neg_content.cfg)               *)
(*   ResultsAliased        the returned dictionary IS the memo: Mutate     *)
(*                         poisons the next answer                         *)
(*                         (MC_DebFileCache_neg_alias.cfg)                 *)
(* Round 6 (faults of caller-supplied objects; ArFile-level calls):         *)
(*   fh      ONE get_file() object that has delivered the head of a file   *)
(*           and whose remainder is still to be read (ReadBegin / ReadEnd, *)
(*           any other step of either package in between),                 *)
(*   ArCall  DebFile is an ArFile: getmember / [] / getmembers / members / *)
(*           getnames / iteration / extractfile only LOOK at the member    *)
(*           table -- they leave every part (and a half-read file) alone,  *)
(*   Fault   the file object the CALLER handed to DebFile(fileobj=...)     *)
(*           raises once during a query: the caller's exception (or the    *)
(*           package-format error) comes out and NOTHING changes (error    *)
(*           atomicity) -- every later answer is the stateless one.        *)
(*           Domain (FaultDomOf): the part's tarball has been opened by an *)
(*           earlier successful query and the part is stored UNCOMPRESSED  *)
(*           (tarfile then reads header by header straight from the ar     *)
(*           member, which seeks before every read).  Outside of it the    *)
(*           standard library itself is not restartable: tarfile.open(     *)
(*           mode='r:*') leaves the member position where a foreign        *)
(*           exception hit it; gzip re-reads its header after a backward   *)
(*           seek and loses the two magic bytes; the BufferedReader inside *)
(*           BZ2File / LZMAFile keeps a stale position when a forward seek *)
(*           (= read and discard) fails half way and then returns bytes of *)
(*           the wrong offset.  Unspecified -- the object is `tainted`     *)
(*           until it is opened again; no answer of a tainted object is    *)
(*           ever a verdict.  Early EOF / short reads are indistinguishable*)
(*           from a truncated package: never generated.                    *)
(*   strm    parts whose sequential decompression stream was rewound       *)
(*           behind the reader's back; scan: lazily walked name index of   *)
(*           has_file (the code has neither).                              *)
(* Negative controls (HistExact violated):                                 *)
(*   GetMemberRewinds     getmember / [] rewinds the member it returns:    *)
(*                        the remainder of a half-read file of that part   *)
(*                        is garbage (MC_DebFileCache_neg_rewind.cfg)      *)
(*   LazyScanDiesOnFault  has_file walks the tarball lazily with ONE       *)
(*                        persistent iterator that a fault finalises:      *)
(*                        later has_file of a name not yet seen is FALSE   *)
(*                        (MC_DebFileCache_neg_scan.cfg)                   *)
(* Round 7 (close() / leaving a `with` block is an ORDINARY step):         *)
(*   Close   DebFile.close(), __exit__, DebPart.close(): the reader lets   *)
(*           go of the operating-system file it opened itself (a package   *)
(*           opened by file name; a file object of the caller is left      *)
(*           alone) and opens it again ON DEMAND.  The step leaves NO      *)
(*           trace: every later answer -- further queries on either part,  *)
(*           the remainder of a half-read get_file() object obtained       *)
(*           BEFORE the close -- is the stateless one.                     *)
(* Negative control (HistExact violated):                                  *)
(*   CloseForgetsPosition the re-opened member starts at its first byte    *)
(*                        instead of where the readers left it: the        *)
(*                        remainder of a half-read file and later contents *)
(*                        of an opened part are garbage                    *)
(*                        (MC_DebFileCache_neg_close.cfg)                  *)
(* Output: with EmitH one HTAB line per (content generation of the two     *)
(* packages, query) = the expected answer; the harness drives random       *)
(* interleaved histories against two real open packages with it, and       *)
(* recorded two-package histories are validated by TraceDebFileCache.      *)
(***************************************************************************)
EXTENDS Naturals, Sequences, FiniteSets, TLC, Json

CONSTANTS CacheKeyedByNameOnly, ContentCacheByFile, ResultsAliased, GetMemberRewinds, LazyScanDiesOnFault,
          CloseForgetsPosition, EmitH

\* the stateless operators of DebFile.tla (its variables and configuration constants play no role here)
D == INSTANCE DebFile WITH Universe <- <<>>, MaxLen <- 0, AnyOrder <- TRUE, InitMatrix <- FALSE,
                           ScriptUniverse <- {}, FileNames <- {}, Blobs <- {},
                           Decompressors <- {"gz", "bz2", "xz", "lzma"},
                           AcceptFirstCandidate <- FALSE, InfoOptional <- FALSE, NormalizeSlash <- TRUE,
                           Emit <- FALSE, EmitProbe <- FALSE,
                           mem <- <<>>, dst <- "ok", pkg <- <<>>, prts <- <<>>, res <- <<>>

VARIABLES objs,     \* <<package 1, package 2>>, each [pkg |-> [c, d, m], prts |-> [ctrl, data]]
          gen,      \* closed model only: which of its two contents each path holds
          tcache,   \* set of [k |-> key, v |-> [f |-> file map, m |-> md5 map]]
          ccache,   \* set of [k |-> key, v |-> get result]
          rmemo,    \* set of [k |-> <<o, op>>, v |-> dictionary result]
          last,     \* <<o, op>> of the dictionary returned last, or <<>>
          fh,       \* <<>> or [o, p, n, out]: the half-read get_file() object and what reading it to the end gives
          strm,     \* set of <<o, p>>: stream position lost behind the readers' back (GetMemberRewinds / CloseForgetsPosition only)
          scan,     \* [dead |-> set of <<o, p>>, seen |-> set of <<o, p, key>>] (LazyScanDiesOnFault only)
          taint,    \* objects hit by a fault outside FaultDomOf since they were opened: unspecified
          hres      \* the last call and its answer (output only)

hvars == <<objs, gen, tcache, ccache, rmemo, last, fh, strm, scan, taint, hres>>
HView == <<objs, gen, tcache, ccache, rmemo, last, fh, strm, scan, taint>>
new   == <<fh, strm, scan, taint>>

Objs     == {1, 2}
HParts   == {"control", "data"}
HNames   == {"f1", "f2", "control", "postinst", "absent"}
RNames   == {"f1", "absent"}                              \* closed model: files a partial read is begun on
QueryOps == {"has", "get", "scripts", "md5sums", "debcontrol"}
ReadOps  == {"readbegin", "readend"}
ArKinds  == {"getmember", "getitem", "getmembers", "members", "getnames", "iter", "extractfile"}
ArNamed  == {"getmember", "getitem", "extractfile"}       \* calls that name one member
ArWhich  == {"control", "data", "info"}                   \* the member named: a part's member or debian-binary

\* the two contents of each path: same file names, different blobs; the rewrite also adds / drops files
Content(o, g) ==
    CASE o = 1 /\ g = 0 -> [c |-> [control |-> 1, md5sums |-> 2, postinst |-> 4],
                            d |-> [f1 |-> 11, f2 |-> 12], m |-> [f1 |-> 111]]
      [] o = 1 /\ g = 1 -> [c |-> [control |-> 41, md5sums |-> 42, postinst |-> 44, config |-> 47],
                            d |-> [f1 |-> 51], m |-> [f1 |-> 151]]
      [] o = 2 /\ g = 0 -> [c |-> [control |-> 21, md5sums |-> 22, postinst |-> 24],
                            d |-> [f1 |-> 31, f2 |-> 32], m |-> [f1 |-> 131, f2 |-> 132]]
      [] o = 2 /\ g = 1 -> [c |-> [control |-> 61, md5sums |-> 62],
                            d |-> [f1 |-> 71, f2 |-> 72], m |-> <<>>]
\* same control member name (a name-keyed memo collides), different data compression; the uncompressed
\* data part of package 2 is read header by header straight from the file object the caller supplied
PartsOf(o) == IF o = 1 THEN [ctrl |-> "control.tar.gz", data |-> "data.tar.xz"]
                       ELSE [ctrl |-> "control.tar.gz", data |-> "data.tar"]

----------------------------------------------------------------------------
PartContent(o, p) == [f |-> D!DMapOf(objs[o].pkg, p), m |-> objs[o].pkg.m]

\* DebPart.tgz(): open the tarball once, keep it
TKey(o, p)  == IF CacheKeyedByNameOnly THEN <<D!DNameOf(objs[o].prts, p)>> ELSE <<o, p>>
THit(o, p)  == {e \in tcache : e.k = TKey(o, p)}
TLook(o, p) == IF THit(o, p) = {} THEN PartContent(o, p) ELSE (CHOOSE e \in THit(o, p) : TRUE).v
TFill(o, p) == IF THit(o, p) = {} THEN tcache \cup {[k |-> TKey(o, p), v |-> PartContent(o, p)]} ELSE tcache

\* the answers, computed from the (possibly memoised) tarball exactly like DebFile!DHas / DGet / ...
AHas(o, p, path) == [err |-> "", found |-> D!DLookup(path) \in D!DTarNames(TLook(o, p).f)]
AGet(o, p, path) == LET fm == TLook(o, p).f  k == D!DLookup(path) IN
                    IF k \notin D!DTarNames(fm) THEN [err |-> "", found |-> FALSE, blob |-> 0]
                    ELSE [err |-> "", found |-> TRUE, blob |-> fm[k[3]]]
AScripts(o) == LET fm == TLook(o, "control").f IN
               [err |-> "", map |-> [s \in DOMAIN fm \cap D!MaintScripts |-> fm[s]]]
AMd5(o)     == LET pc == TLook(o, "control") IN
               IF D!Md5File \in DOMAIN pc.f THEN [err |-> "", map |-> pc.m] ELSE [err |-> "DebError", map |-> <<>>]
ACtl(o)     == LET fm == TLook(o, "control").f IN
               IF D!ControlFile \in DOMAIN fm THEN [err |-> "", blob |-> fm[D!ControlFile]] ELSE [err |-> "absent", blob |-> 0]

\* the reference: the stateless answer of DebFile.tla for the package as it is now
Ref(ob, o, op, args) ==
    LET pk == ob[o].pkg  pr == ob[o].prts IN
    CASE op = "has"        -> D!DHas(pk, pr, args[1], D!DSpell(args[2], args[3]))
      [] op = "get"        -> D!DGet(pk, pr, args[1], D!DSpell(args[2], args[3]))
      [] op = "scripts"    -> D!DScripts(pk, pr)
      [] op = "md5sums"    -> D!DMd5(pk, pr)
      [] op = "debcontrol" -> D!DCtl(pk, pr)

Poison(out) == IF "map" \in DOMAIN out
               THEN [out EXCEPT !.map = [x \in DOMAIN out.map \cup {"junk"} |-> IF x = "junk" THEN 0 ELSE out.map[x]]]
               ELSE [out EXCEPT !.blob = 0]

\* where a fault of the caller's file object is specified to leave no trace
FaultDomOf(prt, p, opened) == opened /\ D!DComp(D!DNameOf(prt, p)) = ""
FaultDom(o, p) == FaultDomOf(objs[o].prts, p, THit(o, p) # {})
\* what a faulted query may raise: the caller's own exception object, or the package-format error
FaultExc == {"caller", "DebError"}

----------------------------------------------------------------------------
Tab(op, o, args, out) ==
    (EmitH /\ op \in QueryOps /\ tcache = {} /\ last = <<>> /\ fh = <<>> /\ taint = {}) =>
        PrintT(<<"HTAB", ToJson([g |-> gen, o |-> o, op |-> op, args |-> args, out |-> out,
                                 pkg |-> objs[o].pkg, prts |-> objs[o].prts])>>)

Init == /\ gen = [o \in Objs |-> 0]
        /\ objs = [o \in Objs |-> [pkg |-> Content(o, 0), prts |-> PartsOf(o)]]
        /\ tcache = {} /\ ccache = {} /\ rmemo = {} /\ last = <<>>
        /\ fh = <<>> /\ strm = {} /\ scan = [dead |-> {}, seen |-> {}] /\ taint = {}
        /\ hres = [op |-> "init"]
        /\ (EmitH => PrintT(<<"FDOM", ToJson([dom |-> [o \in Objs |-> [p \in HParts |-> FaultDomOf(PartsOf(o), p, TRUE)]],
                                                  exc |-> FaultExc])>>))

Answer(op, o, args, out) == /\ hres' = [op |-> op, o |-> o, args |-> args, out |-> out]
                            /\ Tab(op, o, args, out)

HasFile(o, p, sp, n) ==
    LET k   == D!DLookup(D!DSpell(sp, n))
        a   == AHas(o, p, D!DSpell(sp, n))
        out == IF LazyScanDiesOnFault /\ <<o, p>> \in scan.dead /\ <<o, p, k>> \notin scan.seen
               THEN [a EXCEPT !.found = FALSE] ELSE a
    IN /\ Answer("has", o, <<p, sp, n>>, out)
       /\ tcache' = TFill(o, p)
       /\ scan' = IF LazyScanDiesOnFault /\ out.found THEN [scan EXCEPT !.seen = @ \cup {<<o, p, k>>}] ELSE scan
       /\ UNCHANGED <<objs, gen, ccache, rmemo, last, fh, strm, taint>>

GetContent(o, p, sp, n) ==
    LET path == D!DSpell(sp, n)
        ck   == <<D!DNorm(path)>>
        hit  == {e \in ccache : e.k = ck}
        out  == IF ContentCacheByFile /\ hit # {} THEN (CHOOSE e \in hit : TRUE).v
                ELSE IF CloseForgetsPosition /\ <<o, p>> \in strm THEN [err |-> "corrupt", found |-> FALSE, blob |-> 0]
                ELSE AGet(o, p, path)
    IN /\ Answer("get", o, <<p, sp, n>>, out)
       /\ tcache' = IF ContentCacheByFile /\ hit # {} THEN tcache ELSE TFill(o, p)
       /\ ccache' = IF ContentCacheByFile /\ hit = {} THEN ccache \cup {[k |-> ck, v |-> out]} ELSE ccache
       /\ UNCHANGED <<objs, gen, rmemo, last, new>>

DictCall(op, o, fresh) ==
    LET hit == {e \in rmemo : e.k = <<o, op>>}
        out == IF ResultsAliased /\ hit # {} THEN (CHOOSE e \in hit : TRUE).v ELSE fresh
    IN /\ Answer(op, o, <<>>, out)
       /\ tcache' = IF ResultsAliased /\ hit # {} THEN tcache ELSE TFill(o, "control")
       /\ rmemo' = IF ResultsAliased /\ hit = {} THEN rmemo \cup {[k |-> <<o, op>>, v |-> out]} ELSE rmemo
       /\ last' = <<o, op>>
       /\ UNCHANGED <<objs, gen, ccache, new>>

Scripts(o)    == DictCall("scripts", o, AScripts(o))
Md5sums(o)    == DictCall("md5sums", o, AMd5(o))
DebControl(o) == DictCall("debcontrol", o, ACtl(o))

\* the caller changes the dictionary it was handed last (if any; one that belonged to an object
\* since re-opened is nobody's business)
Mutate == /\ rmemo' = IF ResultsAliased /\ last # <<>>
                      THEN {IF e.k = last THEN [e EXCEPT !.v = Poison(e.v)] ELSE e : e \in rmemo}
                      ELSE rmemo
          /\ hres' = [op |-> "mutate"]
          /\ UNCHANGED <<objs, gen, tcache, ccache, last, new>>

\* the file of package o is rewritten (same member names) and opened again: a new object
Reopen(o, np) ==
    /\ objs' = [objs EXCEPT ![o].pkg = np]
    /\ tcache' = IF CacheKeyedByNameOnly THEN tcache ELSE {e \in tcache : e.k[1] # o}
    /\ rmemo' = {e \in rmemo : e.k[1] # o}
    /\ last' = IF last # <<>> /\ last[1] = o THEN <<>> ELSE last
    /\ hres' = [op |-> "reopen", o |-> o]
    /\ fh' = IF fh # <<>> /\ fh.o = o THEN <<>> ELSE fh       \* file objects of the old object are dropped
    /\ strm' = {e \in strm : e[1] # o}
    /\ scan' = [dead |-> {e \in scan.dead : e[1] # o}, seen |-> {e \in scan.seen : e[1] # o}]
    /\ taint' = taint \ {o}
    /\ UNCHANGED ccache

\* get_file(path) and a read of the head of the file; the remainder is read later (ReadEnd)
ReadBegin(o, p, sp, n) ==
    LET out == AGet(o, p, D!DSpell(sp, n)) IN
    /\ fh = <<>>
    /\ Answer("readbegin", o, <<p, sp, n>>, [err |-> out.err, found |-> out.found])
    /\ fh' = IF out.found THEN [o |-> o, p |-> p, n |-> D!DNorm(D!DSpell(sp, n))[1], out |-> out] ELSE <<>>
    /\ tcache' = TFill(o, p)
    /\ UNCHANGED <<objs, gen, ccache, rmemo, last, strm, scan, taint>>

\* the remainder of the half-read file: head + remainder is the packed content
ReadEnd ==
    /\ fh # <<>>
    /\ Answer("readend", fh.o, <<fh.p, "plain", fh.n>>,
              IF <<fh.o, fh.p>> \in strm THEN [err |-> "corrupt", found |-> FALSE, blob |-> 0] ELSE fh.out)
    /\ fh' = <<>>
    /\ UNCHANGED <<objs, gen, tcache, ccache, rmemo, last, strm, scan, taint>>

\* the ArFile view of the package: nothing but the member table is consulted
ArCall(o, kind, w) ==
    /\ hres' = [op |-> "ar", o |-> o, kind |-> kind, w |-> w, out |-> [err |-> ""]]
    /\ strm' = IF GetMemberRewinds /\ kind \in {"getmember", "getitem"} /\ fh # <<>> /\ fh.o = o /\ fh.p = w
               THEN strm \cup {<<o, w>>} ELSE strm
    /\ UNCHANGED <<objs, gen, tcache, ccache, rmemo, last, fh, scan, taint>>

\* close() / __exit__ / DebPart.close() (w = "all" or the part closed): the file the reader opened itself is
\* closed and opened again on demand -- no trace in anything a later call answers
CloseWhich == HParts \cup {"all"}
Close(o, w) ==
    /\ hres' = [op |-> "close", o |-> o, w |-> w, out |-> [err |-> ""]]
    /\ strm' = IF CloseForgetsPosition
               THEN strm \cup {<<o, p>> : p \in {q \in HParts : (w \in {"all", q}) /\ THit(o, q) # {}}}
               ELSE strm
    /\ UNCHANGED <<objs, gen, tcache, ccache, rmemo, last, fh, scan, taint>>

\* the caller's file object raises during query q of part p of object o: the exception comes out,
\* nothing changes; a faulted ReadEnd: the caller drops the file object.  Outside the domain: taint
FaultPart(q, args) == IF q \in {"has", "get", "readbegin"} THEN args[1] ELSE IF q = "readend" THEN fh.p ELSE "control"
Fault(o, q, args) ==
    LET p == FaultPart(q, args) IN
    /\ q = "readend" => fh # <<>> /\ fh.o = o
    /\ q = "readbegin" => fh = <<>>
    /\ hres' = [op |-> "fault", o |-> o, q |-> q, args |-> args, dom |-> FaultDom(o, p)]
    /\ taint' = IF FaultDom(o, p) THEN taint ELSE taint \cup {o}
    /\ fh' = IF fh # <<>> /\ fh.o = o /\ (q = "readend" \/ ~FaultDom(o, p)) THEN <<>> ELSE fh
    /\ scan' = IF LazyScanDiesOnFault /\ q = "has" THEN [scan EXCEPT !.dead = @ \cup {<<o, p>>}] ELSE scan
    /\ UNCHANGED <<objs, gen, tcache, ccache, rmemo, last, strm>>

Next == \/ \E o \in Objs :
            \* (closed model: while a file is half read the queries use the plain spelling only -- the spelling
            \*  plays no role for fh; all three are explored in the states without a half-read file)
            \/ \E p \in HParts, sp \in D!Spellings, n \in HNames :
                  (fh = <<>> \/ sp = "plain") /\ (HasFile(o, p, sp, n) \/ GetContent(o, p, sp, n))
            \/ Scripts(o) \/ Md5sums(o) \/ DebControl(o)
            \/ \E p \in HParts, sp \in D!Spellings, n \in RNames : ReadBegin(o, p, sp, n)
            \* (closed model: one call that names a member and one that does not stand for ArKinds; faults
            \*  inside the domain only -- an object tainted by one outside it has no specified answers)
            \/ \E w \in ArWhich : ArCall(o, "getmember", w)
            \/ ArCall(o, "getnames", "info")
            \/ \E w \in CloseWhich : Close(o, w)
            \/ \E p \in HParts : FaultDom(o, p) /\ (Fault(o, "has", <<p, "plain", "f2">>) \/ Fault(o, "get", <<p, "slash", "f1">>))
            \/ FaultDom(o, "control") /\ Fault(o, "md5sums", <<>>)
            \/ fh # <<>> /\ fh.o = o /\ FaultDom(o, fh.p) /\ Fault(o, "readend", <<>>)
            \/ Reopen(o, Content(o, 1 - gen[o])) /\ gen' = [gen EXCEPT ![o] = 1 - @]
        \/ Mutate
        \/ ReadEnd

Spec == Init /\ [][Next]_hvars

----------------------------------------------------------------------------
\* every answer in every history is the stateless reference answer for the package as it is now
HistOk(h, ob, tn) ==
    /\ (h.op \in QueryOps /\ h.o \notin tn) => (h.out = Ref(ob, h.o, h.op, h.args))
    /\ (h.op = "readend" /\ h.o \notin tn) => (h.out = Ref(ob, h.o, "get", h.args))
    /\ (h.op = "readbegin" /\ h.o \notin tn) =>
           (LET r == Ref(ob, h.o, "get", h.args) IN h.out = [err |-> r.err, found |-> r.found])
HistExact == [][HistOk(hres', objs', taint')]_hvars
\* asking again (nothing re-opened in between) gives the same answer
RepeatStable == [][(hres.op \in QueryOps /\ hres'.op = hres.op /\ hres'.o = hres.o /\ hres'.args = hres.args)
                      => hres'.out = hres.out]_hvars
\* the memo of the code (keyed by object and part) always holds the content of that object's part
CacheCoherent == (~CacheKeyedByNameOnly) => \A e \in tcache : e.v = PartContent(e.k[1], e.k[2])
NoOtherMemo   == (~ContentCacheByFile /\ ~ResultsAliased) => ccache = {} /\ rmemo = {}
\* the code keeps no per-part stream / scan state that the new steps could damage
NoHiddenState == /\ (~GetMemberRewinds /\ ~CloseForgetsPosition => strm = {})
                 /\ (~LazyScanDiesOnFault => scan = [dead |-> {}, seen |-> {}])
\* the pending remainder of a half-read file is the stateless answer for the object as it is now
HandleSound   == fh # <<>> => fh.out = D!DGet(objs[fh.o].pkg, objs[fh.o].prts, fh.p, <<fh.n>>)
=============================================================================
