-------------------------- MODULE TraceChangelog --------------------------
(***************************************************************************)
(* C04 / C15 -- trace validation: executions recorded from the real        *)
(* debian.changelog.Changelog (harness/changelog_common.py) are checked    *)
(* against the parser automaton, the formatter and the editing actions of  *)
(* Changelog.tla.  Strings are opaque: the recorder interns every line     *)
(* text and every attribute value into a small integer (0 = None, -1 = the *)
(* constructor defaults "unknown" / no comment and no extra pairs).        *)
(*                                                                         *)
(* Two kinds of trace                                                      *)
(*  [kind |-> "parse", aea, wf, form, lines]                               *)
(*     form: "text" (str / bytes) or "lines" (file object, iterable of     *)
(*     lines): how the text was handed to the constructor / to             *)
(*     parse_changelog of an existing object (the empty-file rule exists   *)
(*     for the text forms only).                                           *)
(*     lines[i] = [c, v, h, ok, sr, w, nb, ini, ch, tr, fmt, nf, rt, doc]  *)
(*     c: the class of the i-th line as decided by the INDEPENDENT         *)
(*     classifier, v its interned text, h the interned header / trailer    *)
(*     content the classifier extracted; the other fields are what the     *)
(*     real code shows for the PREFIX of i lines (prefix closure): ok no   *)
(*     unexpected exception (lenient constructor returned, strict returned *)
(*     or raised ChangelogParseError, str() returned or raised             *)
(*     ChangelogCreateError), sr strict raised ChangelogParseError,        *)
(*     w number of warnings, nb number of blocks, ini / ch / tr numbers of *)
(*     initial lines / change lines per block / trailing lines per block,  *)
(*     fmt str() succeeded, nf the fixpoint law held on the formatted      *)
(*     text, rt str() = the prefix text; doc = [has, ini, bl]: the interned *)
(*     content of the whole parsed changelog (has = FALSE: not recorded    *)
(*     for this prefix).  wf: the text was produced by the deb-changelog(5)*)
(*     generator without mutation (C04 domain).                            *)
(*  [kind |-> "edit", aea, wf, lines, bl0, ops]                            *)
(*     lines as above (only c, v, h used): the text parsed first, bl0 the  *)
(*     blocks the real parser produced for it; wf: the text is well-formed *)
(*     and every call keeps it so (C04 domain).                            *)
(*     ops[i] = [op, i, x, v, ok, fobs, fmt, nf, out, bl]: one call --     *)
(*     a Changelog-level editing call (EditOps), a call on block i through *)
(*     the block object (BSet attribute x, in-place ChAppend / ChInsert /  *)
(*     ChDelete at x / AddTrailing / BRest = other_pairs[k] = v), or       *)
(*     Fmt = str(block i), MutVer = in-place edit of the Version object    *)
(*     handed out for block i, Reparse = the initial text parsed again     *)
(*     into a new object whose blocks are rp,                              *)
(*     FaultParse = ANOTHER object of the process parses an input that     *)
(*     fails (x = 1 .. 4: Changelog!FaultKinds -- its iterator raised, it  *)
(*     ended early at a line end / inside a line / inside a multi-byte     *)
(*     character); never judged, the document of the history stays what it *)
(*     is and the specification keeps nothing of that input (KeptTail):    *)
(*     every later Reparse / formatting shows what it would have shown;    *)
(*     FmtFail = write_to_open_file(f) with a file object whose write()    *)
(*     raises or accepts only a part: never judged, formatting reads the   *)
(*     document, which stays what it is (as does the render layer);        *)
(*     SetVersionWS = cl.version =                                         *)
(*     valid version + white space (v = <<0>> rejected with ValueError,    *)
(*     else the version shown afterwards) -- with interned arguments v,    *)
(*     and after it:                                                       *)
(*     ok no unexpected exception; fobs the changelog (Fmt: the block) was *)
(*     formatted after the call, then fmt it succeeded, out its lines as   *)
(*     [c, v, h] from the independent classifier, nf the fixpoint law held;*)
(*     bl the interned (package, version, distributions, urgency, changes, *)
(*     author, date) of every block.  Formatting is part of the history:   *)
(*     an event without fobs leaves the object unformatted.                *)
(*                                                                         *)
(*     Unset.. = the attribute of the first block assigned None (v = what  *)
(*     the block shows afterwards: 0 unset / rejected-and-was-unset, or    *)
(*     the value it kept).                                                 *)
(*  [kind |-> "proc", aea, form, lines, ops]                               *)
(*     call history of one PROCESS: the text `lines` (c, v, h as above) is *)
(*     parsed again and again; ops[i] = [s, a, ok, w, sr]: strict or       *)
(*     lenient, allow_empty_author, no unexpected exception, number of     *)
(*     warnings (lenient), raised ChangelogParseError (strict).  A parse   *)
(*     depends on nothing but its own input: full mode compares every call *)
(*     with the reference parse; verdict mode checks the statement across  *)
(*     calls (ANY strict call raises exactly when ANY lenient call with    *)
(*     the same allow_empty_author warns).                                 *)
(*                                                                         *)
(* TRACE_MODE = "full": every observable must equal the specification's.   *)
(* TRACE_MODE = "verdict": only what the property statements promise:      *)
(*     C15  ok; sr <=> w > 0; fmt => nf (edits: only where Specified);     *)
(*     C04  (wf traces, at positions where the generator accepts) w = 0,   *)
(*          ~sr, rt, and all counts / the block contents as written;       *)
(*          (wf edit traces) every formatted output = Format of the        *)
(*          current document.                                              *)
(* The harness validates in full mode first; traces rejected there are     *)
(* re-validated in verdict mode: rejected again = violation, otherwise     *)
(* specification drift (diagnostic).                                       *)
(***************************************************************************)
EXTENDS Changelog, IOUtils, TLCExt

Traces == JsonDeserialize(IOEnv.TRACE_FILE)
Diag   == IOEnv.TRACE_DIAG = "1"
VerdictOnly == IOEnv.TRACE_MODE = "verdict"

VARIABLES tid, l, gs
tvars == <<vars, tid, l, gs>>

Tr == Traces[tid]
N  == IF Tr.kind = "parse" THEN Len(Tr.lines) ELSE Len(Tr.ops)

\* (unlike the model's TextLine every line keeps its interned text as id: a header or trailer line
\*  that is stored verbatim -- as junk inside a block, after slurp -- is observed as its text)
TraceLine(e) == [c  |-> e.c,
                 id |-> e.v,
                 h  |-> IF e.c \in TopClasses \cup EndDetailed THEN e.h ELSE <<>>]
TraceText(ls) == [i \in 1..Len(ls) |-> TraceLine(ls[i])]

\* the generator automaton as an acceptor (no bounds)
GNext(g, c) == CASE g = "lead" /\ c = "Blank" -> "lead"
                 [] g \in {"lead", "between"} /\ c = "TopOK" -> "body"
                 [] g = "body" /\ c \in {"Change", "Blank"} -> "body"
                 [] g = "body" /\ c = "EndOK" -> "between"
                 [] g = "between" /\ c = "Blank" -> "between"
                 [] OTHER -> "off"

Lens(s) == [i \in 1..Len(s) |-> Len(s[i])]
DocProj(d) == [ini |-> Ids(d.ini),
               bl  |-> [i \in 1..Len(d.bl) |-> [h |-> d.bl[i].h, ch |-> Ids(d.bl[i].ch),
                                                au |-> d.bl[i].au, da |-> d.bl[i].da, tr |-> Ids(d.bl[i].tr)]]]
BlocksProj(d) == [i \in 1..Len(d.bl) |-> [h |-> SubSeq(d.bl[i].h, 1, 4), ch |-> Ids(d.bl[i].ch),
                                          au |-> d.bl[i].au, da |-> d.bl[i].da]]

TInit == /\ tid \in 1..Len(Traces) /\ l = 1 /\ gs = "lead"
         /\ aea = Traces[tid].aea
         /\ P = PInit
         /\ D = IF Traces[tid].kind = "edit" THEN ParseText(TraceText(Traces[tid].lines), aea).doc ELSE EmptyDoc
         /\ sraised = FALSE /\ text = <<>> /\ gen = GenInit /\ budget = 0 /\ phase = "text" /\ ops = <<>> /\ rs = RInit

Frame == UNCHANGED <<aea, text, gen, budget, phase, ops, tid>>

TParse ==
   /\ Tr.kind = "parse" /\ l <= N
   /\ LET e  == Tr.lines[l]
          ln == TraceLine(e)
          b  == BranchOf(P.st, P.old, e.c, aea)
          p2 == PStep(P, ln, aea)
          r  == PEofF(p2, Tr.form)
          g2 == IF Tr.wf THEN GNext(gs, e.c) ELSE "off"
          counts == /\ e.nb = Len(r.doc.bl) /\ e.w = r.nw /\ e.ini = Len(r.doc.ini)
                    /\ e.ch = [i \in 1..Len(r.doc.bl) |-> Len(r.doc.bl[i].ch)]
                    /\ e.tr = [i \in 1..Len(r.doc.bl) |-> Len(r.doc.bl[i].tr)]
          content == e.doc.has => (e.doc.ini = DocProj(r.doc).ini /\ e.doc.bl = DocProj(r.doc).bl)
          full == /\ counts /\ content
                  /\ e.fmt = Formattable(r.doc)
                  /\ e.sr = (sraised \/ Raises(b, P.st, e.c) \/ EofWarn(p2) = 1)
          c15  == e.ok /\ (e.sr <=> e.w > 0) /\ (e.fmt => e.nf)
          c04  == (Tr.wf /\ g2 = "between") => (e.w = 0 /\ ~e.sr /\ e.fmt /\ e.rt /\ counts /\ content)
      IN /\ c15 /\ c04
         /\ (~VerdictOnly => full)
         /\ P' = p2 /\ gs' = g2
         /\ sraised' = (sraised \/ Raises(b, P.st, e.c))
         /\ ((Tr.wf /\ g2 = "off") => PrintT(<<"REJECT", tid, l>>))
   /\ l' = l + 1 /\ D' = D /\ rs' = rs /\ Frame
   /\ (Diag => PrintT(<<"AT", tid, l>>))
   /\ (l' = N + 1 => PrintT(<<"ACCEPTED", tid>>))

\* does the observed output (one [c, v, h] per line, from the independent classifier) equal the reference
\* text?  A line the formatter composes (header, trailer: id = 0) is compared by content, a line stored
\* verbatim by its interned text.
OutMatches(o, t) ==
   /\ Len(o) = Len(t)
   /\ \A i \in 1..Len(t) :
         IF t[i].id = 0 /\ t[i].h # <<>>
         THEN o[i].h = t[i].h /\ (t[i].c \in EndDetailed => o[i].c = t[i].c)
         ELSE o[i].v = t[i].id

FaultKindSeq == <<"exc", "eofLine", "eofInLine", "eofInChar">>

Masked(bl, m) == [j \in 1..Len(bl) |-> IF j \in m THEN [bl[j] EXCEPT !.h[2] = 0] ELSE bl[j]]

TEdit ==
   /\ Tr.kind = "edit" /\ l <= N
   /\ LET e    == Tr.ops[l]
          old  == e.op \in EditOps
          op3  == <<e.op, e.i, e.x>>
          \* add_change / add_change(''): any position among the change lines of the first block is accepted
          \* (the one whose blocks are the observed ones); today's position otherwise
          adds == e.op \in {"AddBlank", "AddChange"} /\ Len(D.bl) > 0
          cand == IF adds THEN {EditApply(D, e.op, <<e.v[1], p>>) : p \in InsertChoices(D.bl[1].ch)} ELSE {}
          hit  == {c \in cand : BlocksProj(c) = e.bl}
          d2   == IF adds /\ hit # {} THEN CHOOSE c \in hit : TRUE
                  ELSE IF old THEN EditApply(D, e.op, e.v)
                  ELSE IF e.op = "BRest" THEN [D EXCEPT !.bl[e.i].h[5] = e.v[1]]      \* other_pairs after an in-place edit, as observed
                  ELSE IF e.op \in {"Reparse", "FaultParse", "FmtFail"} THEN D
                  ELSE HApply(D, op3, e.v)
          en   == IF old THEN EditEnabled(D, e.op)
                  ELSE IF e.op = "BRest" THEN e.i \in 1..Len(D.bl)
                  ELSE IF e.op \in {"Reparse", "FmtFail"} THEN TRUE
                  ELSE IF e.op = "FaultParse" THEN e.x \in 1..Len(FaultKindSeq) ELSE HValid(D, op3)
          \* blocks whose own handed-out Version object was edited in place: their version is not judged
          mut2 == IF e.op = "MutVer" THEN rs.mut \cup {e.i}
                  ELSE IF e.op \in {"NewBlockFull", "NewBlockEmpty"} THEN {j + 1 : j \in rs.mut} ELSE rs.mut
          shown == Masked(e.bl, mut2) = Masked(BlocksProj(d2), mut2)
          \* Reparse: the text parsed at the start is parsed again into a NEW object (any input form): it
          \* exposes what is written, whatever happened to other objects
          \* (whatever the process went through before -- rs.carry -- the parse gets its own input: KeptTail)
          again == e.op = "Reparse" => /\ e.rp = BlocksProj(ParseText(TraceText(Tr.lines), aea).doc)
                                       /\ KeptTail(rs.carry) = <<>>
          carry2 == IF e.op = "FaultParse" /\ en THEN FaultKindSeq[e.x] ELSE IF e.op = "Reparse" THEN "none" ELSE rs.carry
          tgt  == IF e.op = "Fmt" THEN e.i ELSE 0                   \* what was formatted after the call: the changelog or block i
          able == IF tgt = 0 THEN Formattable(d2) ELSE BlockFormattable(d2.bl[tgt])
          same == e.fobs => (e.fmt = able /\ (able => OutMatches(e.out, RefOut(d2, tgt))))
      IN /\ en
         /\ D' = d2
         /\ e.ok                                                     \* the call returned; str() returned or said "incomplete"
         /\ (e.fobs /\ tgt = 0 /\ e.fmt /\ Specified(d2)) => e.nf        \* C15, histories
         /\ Tr.wf => (same /\ shown /\ again)                        \* C04, histories: every output is the reference Format of the CURRENT
                                                                     \* document; the blocks expose what was written / assigned
         /\ (~VerdictOnly => (same /\ shown /\ again /\ (adds => d2 = EditApply(D, e.op, e.v))))   \* diagnostic: today's position
         /\ ((~VerdictOnly /\ l = 1) => Tr.bl0 = BlocksProj(D))
         /\ rs' = [rs EXCEPT !.mut = mut2, !.carry = carry2]
   /\ l' = l + 1 /\ UNCHANGED <<P, sraised, gs>> /\ Frame
   /\ (Diag => PrintT(<<"AT", tid, l>>))
   /\ (l' = N + 1 => PrintT(<<"ACCEPTED", tid>>))

\* call history of one process on one text (Changelog!ProcHistoryFree / StrictIffWarnProc); the calls seen
\* so far are kept in ops
Chk(pred) == pred = TRUE
TProc ==
   /\ Tr.kind = "proc" /\ l <= N
   /\ LET e    == Tr.ops[l]
          ref  == PEofF(PFold(PInit, TraceText(Tr.lines), 1, e.a), Tr.form)
          full == IF e.s THEN e.sr = (ref.nw > 0) ELSE e.w = ref.nw
          c15  == /\ e.ok
                  /\ \A k \in 1..Len(ops) :
                        (ops[k].a = e.a /\ ops[k].s # e.s) =>
                           (IF e.s THEN (e.sr <=> ops[k].w > 0) ELSE (ops[k].sr <=> e.w > 0))
      IN /\ Chk(c15)
         /\ Chk(~VerdictOnly => full)
         /\ ops' = Append(ops, e)
   /\ l' = l + 1 /\ UNCHANGED <<P, D, sraised, gs, rs, aea, text, gen, budget, phase, tid>>
   /\ Chk(Diag => PrintT(<<"AT", tid, l>>))
   /\ Chk(l' = N + 1 => PrintT(<<"ACCEPTED", tid>>))

\* a trace without events is trivially explained
TEmpty == /\ N = 0 /\ l = 1 /\ l' = 2 /\ UNCHANGED <<P, D, sraised, gs, rs>> /\ Frame /\ PrintT(<<"ACCEPTED", tid>>)

TNext == TParse \/ TEdit \/ TProc \/ TEmpty
TSpec == TInit /\ [][TNext]_tvars

\* along every observed execution
TSlurpOnlyFromHeading == P.st = "SL" => P.old = "NH"
TBookkeeping == P.nb = Len(P.doc.bl)
=============================================================================
