-------------------------- MODULE TraceChangelog --------------------------
(***************************************************************************)
(* C04 / C15 -- trace validation: executions recorded from the real        *)
(* debian.changelog.Changelog (harness/changelog_common.py) are checked    *)
(* against the parser automaton, the formatter and the editing actions of  *)
(* Changelog.tla.  Strings are opaque: the recorder interns every line     *)
(* text and every attribute value into a small integer (0 = None, -1 = the *)
(* constructor defaults "unknown" / no comment and no extra pairs).        *)
(*                                                                         *)
(* Two kinds of trace                                                      *)
(*  [kind |-> "parse", aea, wf, lines]                                     *)
(*     lines[i] = [c, v, h, ok, sr, w, nb, ini, ch, tr, fmt, nf, rt, doc]  *)
(*     c: the class of the i-th line as decided by the INDEPENDENT         *)
(*     classifier, v its interned text, h the interned header / trailer    *)
(*     content the classifier extracted; the other fields are what the     *)
(*     real code shows for the PREFIX of i lines (prefix closure): ok no   *)
(*     unexpected exception (lenient constructor returned, strict returned *)
(*     or raised ChangelogParseError, str() returned or raised             *)
(*     ChangelogCreateError), sr strict raised ChangelogParseError,        *)
(*     w number of warnings, nb number of blocks, ini / ch / tr numbers of *)
(*     initial lines / change lines per block / trailing lines per block,  *)
(*     fmt str() succeeded, nf the fixpoint law held on the formatted      *)
(*     text, rt str() = the prefix text; doc = [has, ini, bl]: the interned *)
(*     content of the whole parsed changelog (has = FALSE: not recorded    *)
(*     for this prefix).  wf: the text was produced by the deb-changelog(5)*)
(*     generator without mutation (C04 domain).                            *)
(*  [kind |-> "edit", aea, lines, bl0, ops]                                *)
(*     lines as above (only c, v, h used): the text parsed first, bl0 the  *)
(*     blocks the real parser produced for it;                             *)
(*     ops[i] = [op, v, ok, fmt, nf, bl]: the editing call, its interned   *)
(*     arguments, and after it: ok no unexpected exception (from the call  *)
(*     or from str()), str() succeeded, the fixpoint law held,             *)
(*     the interned (package, version, distributions, urgency, changes,    *)
(*     author, date) of every block.                                       *)
(*                                                                         *)
(* TRACE_MODE = "full": every observable must equal the specification's.   *)
(* TRACE_MODE = "verdict": only what the property statements promise:      *)
(*     C15  ok; sr <=> w > 0; fmt => nf (edits: only where Specified);     *)
(*     C04  (wf traces, at positions where the generator accepts) w = 0,   *)
(*          ~sr, rt, and all counts / the block contents as written.       *)
(* The harness validates in full mode first; traces rejected there are     *)
(* re-validated in verdict mode: rejected again = violation, otherwise     *)
(* specification drift (diagnostic).                                       *)
(***************************************************************************)
EXTENDS Changelog, IOUtils, TLCExt

Traces == JsonDeserialize(IOEnv.TRACE_FILE)
Diag   == IOEnv.TRACE_DIAG = "1"
VerdictOnly == IOEnv.TRACE_MODE = "verdict"

VARIABLES tid, l, gs
tvars == <<vars, tid, l, gs>>

Tr == Traces[tid]
N  == IF Tr.kind = "parse" THEN Len(Tr.lines) ELSE Len(Tr.ops)

\* (unlike the model's TextLine every line keeps its interned text as id: a header or trailer line
\*  that is stored verbatim -- as junk inside a block, after slurp -- is observed as its text)
TraceLine(e) == [c  |-> e.c,
                 id |-> e.v,
                 h  |-> IF e.c \in TopClasses \cup EndDetailed THEN e.h ELSE <<>>]
TraceText(ls) == [i \in 1..Len(ls) |-> TraceLine(ls[i])]

\* the generator automaton as an acceptor (no bounds)
GNext(g, c) == CASE g = "lead" /\ c = "Blank" -> "lead"
                 [] g \in {"lead", "between"} /\ c = "TopOK" -> "body"
                 [] g = "body" /\ c \in {"Change", "Blank"} -> "body"
                 [] g = "body" /\ c = "EndOK" -> "between"
                 [] g = "between" /\ c = "Blank" -> "between"
                 [] OTHER -> "off"

Lens(s) == [i \in 1..Len(s) |-> Len(s[i])]
DocProj(d) == [ini |-> Ids(d.ini),
               bl  |-> [i \in 1..Len(d.bl) |-> [h |-> d.bl[i].h, ch |-> Ids(d.bl[i].ch),
                                                au |-> d.bl[i].au, da |-> d.bl[i].da, tr |-> Ids(d.bl[i].tr)]]]
BlocksProj(d) == [i \in 1..Len(d.bl) |-> [h |-> SubSeq(d.bl[i].h, 1, 4), ch |-> Ids(d.bl[i].ch),
                                          au |-> d.bl[i].au, da |-> d.bl[i].da]]

TInit == /\ tid \in 1..Len(Traces) /\ l = 1 /\ gs = "lead"
         /\ aea = Traces[tid].aea
         /\ P = PInit
         /\ D = IF Traces[tid].kind = "edit" THEN ParseText(TraceText(Traces[tid].lines), aea).doc ELSE EmptyDoc
         /\ sraised = FALSE /\ text = <<>> /\ gen = GenInit /\ budget = 0 /\ phase = "text" /\ ops = <<>>

Frame == UNCHANGED <<aea, text, gen, budget, phase, ops, tid>>

TParse ==
   /\ Tr.kind = "parse" /\ l <= N
   /\ LET e  == Tr.lines[l]
          ln == TraceLine(e)
          b  == BranchOf(P.st, P.old, e.c, aea)
          p2 == PStep(P, ln, aea)
          r  == PEof(p2)
          g2 == IF Tr.wf THEN GNext(gs, e.c) ELSE "off"
          counts == /\ e.nb = Len(r.doc.bl) /\ e.w = r.nw /\ e.ini = Len(r.doc.ini)
                    /\ e.ch = [i \in 1..Len(r.doc.bl) |-> Len(r.doc.bl[i].ch)]
                    /\ e.tr = [i \in 1..Len(r.doc.bl) |-> Len(r.doc.bl[i].tr)]
          content == e.doc.has => (e.doc.ini = DocProj(r.doc).ini /\ e.doc.bl = DocProj(r.doc).bl)
          full == /\ counts /\ content
                  /\ e.fmt = Formattable(r.doc)
                  /\ e.sr = (sraised \/ Raises(b, P.st, e.c) \/ EofWarn(p2) = 1)
          c15  == e.ok /\ (e.sr <=> e.w > 0) /\ (e.fmt => e.nf)
          c04  == (Tr.wf /\ g2 = "between") => (e.w = 0 /\ ~e.sr /\ e.fmt /\ e.rt /\ counts /\ content)
      IN /\ c15 /\ c04
         /\ (~VerdictOnly => full)
         /\ P' = p2 /\ gs' = g2
         /\ sraised' = (sraised \/ Raises(b, P.st, e.c))
         /\ ((Tr.wf /\ g2 = "off") => PrintT(<<"REJECT", tid, l>>))
   /\ l' = l + 1 /\ D' = D /\ Frame
   /\ (Diag => PrintT(<<"AT", tid, l>>))
   /\ (l' = N + 1 => PrintT(<<"ACCEPTED", tid>>))

TEdit ==
   /\ Tr.kind = "edit" /\ l <= N
   /\ LET e  == Tr.ops[l]
          d2 == EditApply(D, e.op, e.v)
      IN /\ EditEnabled(D, e.op)
         /\ D' = d2
         /\ e.ok                                                     \* the call returned; str() returned or said "incomplete"
         /\ (e.fmt /\ Specified(d2)) => e.nf                         \* C15, histories
         /\ (~VerdictOnly => (e.fmt = Formattable(d2) /\ e.bl = BlocksProj(d2)))
         /\ ((~VerdictOnly /\ l = 1) => Tr.bl0 = BlocksProj(D))
   /\ l' = l + 1 /\ UNCHANGED <<P, sraised, gs>> /\ Frame
   /\ (Diag => PrintT(<<"AT", tid, l>>))
   /\ (l' = N + 1 => PrintT(<<"ACCEPTED", tid>>))

\* a trace without events is trivially explained
TEmpty == /\ N = 0 /\ l = 1 /\ l' = 2 /\ UNCHANGED <<P, D, sraised, gs>> /\ Frame /\ PrintT(<<"ACCEPTED", tid>>)

TNext == TParse \/ TEdit \/ TEmpty
TSpec == TInit /\ [][TNext]_tvars

\* along every observed execution
TSlurpOnlyFromHeading == P.st = "SL" => P.old = "NH"
TBookkeeping == P.nb = Len(P.doc.bl)
=============================================================================
